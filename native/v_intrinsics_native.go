//go:build verif && verif_native

package raft

// Native bodies of the gosym intrinsics: a solver model (replay JSON written
// by ./check) is fed back into the very same harness, compiled by the Go
// compiler against the real code. Used by ./check replay.

import (
	"encoding/json"
	"fmt"
	"os"
	"strings"
	"testing"
	"time"
)

type vReplayInput struct {
	Name  string `json:"name"`
	Kind  string `json:"kind"`
	Value uint64 `json:"value"`
	Len   uint64 `json:"len"`
	Text  string `json:"text"`
}

type vReplayFile struct {
	AssertID string            `json:"assert_id"`
	Harness  string            `json:"harness"`
	Inputs   []vReplayInput    `json:"inputs"`
	Interned map[string]string `json:"interned_strings"`
}

var (
	vrVals    = map[string]vReplayInput{}
	vrCount   = map[string]int{}
	vrFailed  []string
	vrTexts   = map[uint64]string{}
	vrTarget  string
	vrDiverge string
)

type vrDiverged struct{ why string }

func vrNext(name string) (vReplayInput, bool) {
	k := vrCount[name]
	vrCount[name] = k + 1
	in, ok := vrVals[fmt.Sprintf("%s#%d", name, k)]
	return in, ok
}

func vrText(id uint64, n uint64) string {
	if id == 0 {
		return ""
	}
	if s, ok := vrTexts[id]; ok {
		return s
	}
	s := fmt.Sprintf("s%d", id)
	if n > 64 {
		n = 64 // lengths are not observable beyond emptiness in the abstract domain
	}
	for uint64(len(s)) < n {
		s += "_"
	}
	// never truncated: distinct ids must stay distinct texts (only emptiness and equality are observable
	// in the abstract string domain; a model length shorter than the synthesized text is not reproduced)
	vrTexts[id] = s
	return s
}

func vU64(name string) uint64 { in, _ := vrNext(name); return in.Value }
func vI64(name string) int64  { in, _ := vrNext(name); return int64(in.Value) }
func vInt(name string) int    { in, _ := vrNext(name); return int(int64(in.Value)) }
func vU32(name string) uint32 { in, _ := vrNext(name); return uint32(in.Value) }
func vU8(name string) uint8   { in, _ := vrNext(name); return uint8(in.Value) }
func vBool(name string) bool  { in, _ := vrNext(name); return in.Value != 0 }
func vFail(name string) bool  { in, _ := vrNext(name); return in.Value != 0 }
func vStr(name string) string {
	in, _ := vrNext(name)
	if in.Text != "" {
		vrTexts[in.Value] = in.Text
	}
	return vrText(in.Value, in.Len)
}
func vBlob(name string) []byte {
	in, _ := vrNext(name)
	nl, _ := vrNext(name + ".nil")
	if nl.Value != 0 {
		return nil
	}
	if in.Text != "" {
		vrTexts[in.Value] = in.Text
	}
	return []byte(vrText(in.Value, in.Len))
}
func vChoose(name string, lo, hi int) int {
	in, ok := vrNext(name)
	if !ok {
		panic(vrDiverged{"no recorded choice for " + name})
	}
	return int(int64(in.Value))
}
func vAssume(c bool) {
	if !c {
		panic(vrDiverged{"an assumption is false under the replayed inputs"})
	}
}
func vAssert(c bool, id string) {
	if !c {
		vrFailed = append(vrFailed, id)
	}
}
func vCover(id string)                    {}
func vReach(id string)                    {}
func vNote(s string)                      {}
func vAnd(a, b bool) bool                 { return a && b }
func vOr(a, b bool) bool                  { return a || b }
func vImplies(a, b bool) bool             { return !a || b }
func vIte64(c bool, a, b uint64) uint64   { if c { return a }; return b }
func vIteBool(c bool, a, b bool) bool     { if c { return a }; return b }
func vIteStr(c bool, a, b string) string  { if c { return a }; return b }
func vStrEq(a, b string) bool             { return a == b }
func vBlobEq(a, b []byte) bool            { return string(a) == string(b) }
func vBlobIsNil(a []byte) bool            { return a == nil }
func vB2U(b bool) uint64                  { if b { return 1 }; return 0 }

var vrBase uint64
var vrBaseSet bool

func vBase() uint64 {
	if !vrBaseSet {
		in, _ := vrNext("base")
		vrBase, vrBaseSet = in.Value, true
	}
	return vrBase
}
func vBaseAlign12() { vBase() }

type vWin64 struct {
	cells map[uint64]uint64
	w     int
}

func vWinNew(name string, w int, bits int) *vWin64 {
	win := &vWin64{cells: map[uint64]uint64{}, w: w}
	base := vBase()
	for k := 1; k <= w; k++ {
		in, _ := vrNext(fmt.Sprintf("%s[%d]", name, k))
		win.cells[base+uint64(k)] = in.Value
	}
	return win
}
func (w *vWin64) In(i uint64) bool    { b := vBase(); return i >= b+1 && i <= b+uint64(w.w) }
func (w *vWin64) Get(i uint64) uint64 { return w.cells[i] }
func (w *vWin64) Set(i uint64, v uint64) {
	if !w.In(i) {
		panic(vrDiverged{"write outside the window"})
	}
	w.cells[i] = v
}
func (w *vWin64) Clone() *vWin64 {
	n := &vWin64{cells: map[uint64]uint64{}, w: w.w}
	for k, v := range w.cells {
		n.cells[k] = v
	}
	return n
}

var vrBlobIDs = map[string]uint64{}

func vBlobFromCell(x uint64) []byte {
	id := x & 0xffffffff
	if x>>32&1 == 1 && id == 0 {
		return nil
	}
	return []byte(vrText(id, 0))
}
func vBlobToCell(b []byte) uint64 {
	if b == nil {
		return 1 << 32
	}
	if len(b) == 0 {
		return 0
	}
	for id, s := range vrTexts {
		if s == string(b) {
			return id
		}
	}
	// unknown content (e.g. a really encoded configuration): give it a fresh id
	id := uint64(0x7f000000 + len(vrTexts))
	vrTexts[id] = string(b)
	return id
}
func vStrFromCell(x uint64) string { return vrText(x&0xffffffff, 0) }
func vStrToCell(s string) uint64   { return vBlobToCell([]byte(s)) & 0xffffffff }
func vEncodeConfiguration(c Configuration) []byte { return EncodeConfiguration(c) }

func vRunUntilBlocked(f func()) { go f(); time.Sleep(150 * time.Millisecond) }
func vGo(f func())              { go f() }
func vQuiesce()                 { time.Sleep(150 * time.Millisecond) }
func vSpawnPolicy(run bool)     {}
func vGoAllow(s string)         {}
func vTimerMode(m int)          {}
func vMapPerm(on bool)          {}
func vAssertNoPanic(id string)  {}
func vAssertNoDeadlock(id string) {}
func vNoIOFaults()              {}
func vIOSize(n int64)           {}
func vTier() int                { return 0 }
func vLastNow() int64           { return time.Now().UnixNano() }
func vTime(name string) time.Time { in, _ := vrNext(name); return time.Unix(0, int64(in.Value)) }
func vTimeNs(t time.Time) int64   { return t.UnixNano() }
func vCatch(f func()) (panicked bool) {
	defer func() {
		if r := recover(); r != nil {
			if d, ok := r.(vrDiverged); ok {
				panic(d)
			}
			panicked = true
		}
	}()
	f()
	return false
}

// vReplayRun is called by the generated test.
func vReplayRun(t *testing.T, harness func(), target string) {
	b, err := os.ReadFile(os.Getenv("VERIF_REPLAY"))
	if err != nil {
		t.Fatalf("REPLAY-ERROR: %v", err)
	}
	var rf vReplayFile
	if err := json.Unmarshal(b, &rf); err != nil {
		t.Fatalf("REPLAY-ERROR: %v", err)
	}
	for _, in := range rf.Inputs {
		vrVals[in.Name] = in
	}
	vrTarget = target
	done := make(chan string, 1)
	go func() {
		defer func() {
			if r := recover(); r != nil {
				if d, ok := r.(vrDiverged); ok {
					done <- "diverged: " + d.why
					return
				}
				done <- fmt.Sprintf("panic: %v", r)
				return
			}
			done <- "returned"
		}()
		harness()
	}()
	var how string
	select {
	case how = <-done:
	case <-time.After(20 * time.Second):
		how = "blocked"
	}
	base := target
	if strings.HasPrefix(base, "KF:") {
		if i := strings.Index(base[3:], ":"); i >= 0 {
			base = base[3+i+1:]
		}
	}
	hit := false
	for _, f := range vrFailed {
		if f == target || f == base || strings.HasSuffix(f, ":"+base) {
			hit = true
		}
	}
	if strings.Contains(base, "no-panic") && strings.HasPrefix(how, "panic") {
		hit = true
	}
	if strings.Contains(base, "blocks-forever") && how == "blocked" {
		hit = true
	}
	fmt.Printf("REPLAY-OUTCOME how=%q failed=%v\n", how, vrFailed)
	switch {
	case hit:
		fmt.Println("REPLAY-REPRODUCED", target)
		t.Fail()
	case strings.HasPrefix(how, "diverged"):
		fmt.Println("REPLAY-DIVERGED", how)
	default:
		fmt.Println("REPLAY-NOT-REPRODUCED", target)
	}
}

// ---- translator validation: run many solver-chosen input vectors natively ----

type vWitness struct {
	Harness string         `json:"harness"`
	Inputs  []vReplayInput `json:"inputs"`
}

func vrReset() {
	vrVals = map[string]vReplayInput{}
	vrCount = map[string]int{}
	vrFailed = nil
	vrTexts = map[uint64]string{}
	vrBaseSet = false
}

// vReplayWitnesses runs every witness of VERIF_WITNESSES through its harness and
// prints one WITNESS-RESULT line per witness.
func vReplayWitnesses(t *testing.T, harnesses map[string]func()) {
	b, err := os.ReadFile(os.Getenv("VERIF_WITNESSES"))
	if err != nil {
		t.Fatalf("WITNESS-ERROR: %v", err)
	}
	var ws []vWitness
	if err := json.Unmarshal(b, &ws); err != nil {
		t.Fatalf("WITNESS-ERROR: %v", err)
	}
	for i, w := range ws {
		h, ok := harnesses[w.Harness]
		if !ok {
			continue
		}
		vrReset()
		for _, in := range w.Inputs {
			vrVals[in.Name] = in
		}
		done := make(chan string, 1)
		go func() {
			defer func() {
				if r := recover(); r != nil {
					if d, ok := r.(vrDiverged); ok {
						done <- "diverged: " + d.why
						return
					}
					done <- fmt.Sprintf("panic: %v", r)
					return
				}
				done <- "returned"
			}()
			h()
		}()
		how := ""
		select {
		case how = <-done:
		case <-time.After(10 * time.Second):
			how = "blocked"
		}
		out, _ := json.Marshal(map[string]interface{}{"i": i, "harness": w.Harness, "how": how, "failed": vrFailed})
		fmt.Println("WITNESS-RESULT", string(out))
	}
}

// file-system model intrinsics: engine-only (the native build uses the real file system)
func vFSCrashAt(k int)        {}
func vFSOps() int             { return 0 }
func vFSCrashed() bool        { return false }
func vFSApplyCrash()          {}
func vFSMkdirAll(path string) {}
func vFSSyncAll()             {}
func vBlobID(b []byte) uint64 { return vBlobToCell(b) & 0xffffffff }
func vFileContent(b *bufferedFile) uint64 { return 0 }
func vFSCorruptFile(path string) bool { return false }
func vTimerFor(site string, mode int) {}
func vLastTimerDuration() time.Duration { return 0 }

// vVolatile: natively the cell keeps its value (replay of a counterexample that depends on another
// goroutine's store between two loads is engine-only).
func vVolatile(p *int32) {}

// vIOCopyN: the native io.Copy moves real bytes; the harnesses that use this are engine-only.
func vIOCopyN(k int) int64 { return -1 }
