"""Per-property configuration of the checks (harness list, bounds, covers).
Read by ./check. Harness code is in harness/*.go (overlaid into package raft)."""

COMMON_ASSUMPTIONS = [
    "Go front end and go/ssa lowering are correct; the engine's semantics of the SSA instruction kinds it executes (engine/sym/interp.go) match Go",
    "goroutine preemption between two instructions of different goroutines is NOT explored (run-until-blocked coroutine scheduler); select with several ready cases forks on every ready case",
    "sync.Mutex/RWMutex/WaitGroup operations are no-ops; sync/atomic operations are plain loads/stores",
    "hclog.Logger methods, go-metrics functions, fmt.Sprintf/Errorf (fresh opaque strings) are stubs: arguments are evaluated, bodies skipped",
    "strings/[]byte are abstract content ids (equality, length, nil-ness only); byte-level content is never inspected",
    "integers are bit-vectors of their Go width with wrap-around; window base < 2^62 where a harness uses a log window",
    "an unsat verdict covers all values inside the stated bounds and nothing outside them",
]

STUB_NOTES = {
    "hclog.Logger.*": "no-op; arguments evaluated",
    "github.com/hashicorp/go-metrics.*": "no-op",
    "time.Now/Since": "fresh symbolic monotone instant",
    "sort.Sort": "insertion sort driven through the value's real Len/Less/Swap (n<=8), comparisons fork",
}

CHECKS = {}

CHECKS["C05"] = {
    "only": ["C05."],
    "explanation": "C05 is decided as step lemmas over the real commitment code: from an ARBITRARY commitment state (one slot per voter, arbitrary match "
                   "indexes, arbitrary commit/start index) one match()/setConfiguration() call must keep the commit index monotone, raise it only to an index "
                   ">= startIndex held by a strict majority of the voters of the configuration in force, keep exactly one slot per voter and ignore non-voters/strangers.",
    "outside": "'durably stored' relies on the store contract; cluster-level composition is the written argument of DESIGN.md 3.4",
    "assumptions": ["server IDs/addresses within one configuration are pairwise distinct and non-empty (checkConfiguration, itself checked under C07)"],
    "harnesses": [
        {"fn": "vh_C05_commitment_step", "what": "one commitment.match(any id, any index) from an arbitrary state",
         "bounds_quick": "N<=4 servers, symbolic suffrage (any int), 64-bit indexes", "bounds_thorough": "N<=5 servers",
         "covers": ["C05.commitment.advanced", "C05.commitment.stranger", "C05.commitment.nonvoter-match", "C05.commitment.end"]},
        {"fn": "vh_C05_setconfig_step", "what": "one commitment.setConfiguration(any cfg') from an arbitrary state",
         "bounds": "N<=3 old, M<=3 new servers", "covers": ["C05.setconfig.advanced", "C05.setconfig.end"]},
        {"fn": "vh_C05_commitment_seq", "what": "newCommitment + <=2 match calls", "bounds": "N<=3, S<=2",
         "covers": ["C05.seq.advanced", "C05.seq.end"]},
    ],
}

CHECKS["C07"] = {
    "only": ["C07."],
    "explanation": "C07: nextConfiguration/checkConfiguration are executed on an arbitrary valid configuration and an arbitrary request (all commands incl. out-of-range, "
                   "colliding/empty ids and addresses, any prevIndex); the result must differ by at most one voter, keep >=1 voter and unique ids/addresses, reject a stale "
                   "prevIndex, and never touch the caller's backing array.",
    "outside": "racing membership requests with elections beyond the gate being evaluated on an arbitrary state",
    "assumptions": [],
    "harnesses": [
        {"fn": "vh_C07_check_config", "what": "checkConfiguration(cfg) == nil <=> cfg has unique non-empty ids/addresses and >= 1 voter",
         "bounds_quick": "N<=3 servers, arbitrary suffrage ints, ids/addresses may collide or be empty", "bounds_thorough": "N<=4",
         "covers": ["C07.check.accepted", "C07.check.rejected"]},
        {"fn": "vh_C07_next_config", "what": "one nextConfiguration(current, index, request)",
         "bounds_quick": "N<=3 servers, caller slice with and without spare capacity", "bounds_thorough": "N<=4",
         "covers": ["C07.next.ok", "C07.next.error", "C07.next.stale-prev", "C07.next.addvoter", "C07.next.addnonvoter", "C07.next.demote", "C07.next.remove", "C07.next.promote", "C07.next.unknown-command"]},
    ],
}

CHECKS["C19"] = {
    "only": ["C19."],
    "explanation": "C19: LogCache over a model backend (window of symbolic cells). INDUCTIVE: from an arbitrary (cache, backend) pair satisfying 'every occupied slot "
                   "mirrors the backend entry at its index and sits at index%capacity', one arbitrary StoreLog/StoreLogs/DeleteRange/FirstIndex/LastIndex (backend failures "
                   "injected) preserves the invariant, forwards the call unchanged, and an arbitrary read through the cache equals the direct backend read.",
    "outside": "non-atomic (partial) batch failure of a backend; a caller mutating a *Log after storing it; capacities > 4; window > 3",
    "assumptions": ["window base is a multiple of 12 (so idx%capacity folds for capacity in 1..4); positions are case-split over the window, contents stay symbolic",
                    "the backend fails atomically (an injected failure has no effect)"],
    "harnesses": [
        {"fn": "vh_C19_new", "what": "NewLogCache refuses capacity <= 0 and starts empty", "bounds": "capacity any int <= 4", "covers": ["C19.new.refused"]},
        {"fn": "vh_C19_inductive", "what": "one operation from an arbitrary invariant-satisfying state", "bounds_quick": "capacity 1..3, window W=3, batches of 1-2 logs",
         "bounds_thorough": "capacity 1..4", "covers": ["C19.read.hit-or-forward", "C19.store.backend-error", "C19.delete.backend-error", "C19.inductive.end"]},
        {"fn": "vh_C19_diff", "what": "NewLogCache + S operations, then a read", "bounds_quick": "S=2, capacity 1..3, W=2", "bounds_thorough": "S=3",
         "covers": ["C19.diff.end", "C19.read.hit-or-forward"], "thorough": {"max_paths": 600000}},
    ],
}

# ---- shared harness descriptors ----
H_VOTE = {"fn": "vh_vote_step", "what": "one requestVote from an arbitrary R-state (R1,R2,R2+) with an arbitrary request; every stable-store call may fail; "
          "both conventions for an absent stable key",
          "bounds_quick": "N<=2 servers in the configuration (0 = bootstrap), 64-bit terms/indexes < 2^62", "bounds_thorough": "N<=3",
          "covers": ["vote.granted", "vote.first-grant", "vote.re-grant", "vote.refused", "vote.other-candidate-same-term", "vote.stale-term", "vote.term-adopted", "vote.panic-on-term-write"]}
H_PREVOTE = {"fn": "vh_prevote_step", "what": "one requestPreVote from an arbitrary R-state", "bounds_quick": "N<=2", "bounds_thorough": "N<=3",
             "covers": ["prevote.granted", "prevote.refused"]}
H_AE_TERM = {"fn": "vh_ae_term", "what": "appendEntries term handling / step-down / leader hint on a heartbeat-shaped request; stable-store failures injected",
             "bounds": "window W=1, arbitrary terms, state in {Follower,Candidate,Leader}, transfer-candidate flag symbolic",
             "covers": ["ae.stale-term", "ae.term.success", "ae.term.legacy-leader-field", "ae.term.panic-on-term-write"]}
H_AE_LOG = {"fn": "vh_ae_log", "what": "appendEntries log handling: follower log F and sender log L arbitrary in a window, related by log matching; request built from L "
            "(prev anywhere in L incl. snapshot boundary and base; duplicates; batch ending inside F's log)",
            "bounds_quick": "window W=2 at a symbolic base, E<=2 entries, entry types Command/Noop", "bounds_thorough": "W=3",
            "covers": ["ae.success", "ae.success-with-entries", "ae.rejected", "ae.truncated", "ae.fed-fsm"],
            "thorough": {"max_paths": 400000}}

AE_ASSUME = ["appendEntries log harness: request term = follower's current term and follower state (term handling is decided by vh_ae_term)",
             "hypotheses LM(F,L) (log matching incl. the snapshot point), LC(L,F) (what F knows committed/applied/snapshotted is identical in the sender's log) and NI "
             "(beyond the batch F holds nothing below the leader's commit index that disagrees with L) are ASSUMED in the pre-state; LM is shown preserved",
             "log entries in the window are Command or Noop; configuration entries are handled by dedicated harnesses"]

CHECKS["C01"] = {
    "only": ["C01."],
    "explanation": "C01 is decided as step lemmas (DESIGN 4.1): VOTE-ONCE (a server's durable vote in a term names one candidate; granted only after the record is durable), "
                   "TERM-STEPDOWN (higher term => follower with that term; stale term => no effect), and the quorum glue lemma over the real quorumSize/nextConfiguration.",
    "outside": "composition of the step lemmas into the cluster-level theorem (written argument, DESIGN 3.4); intra-server preemption; message pairing by the transport",
    "assumptions": ["RequestVote requests carry a non-empty header ID and name their sender (Addr or Candidate non-empty)"],
    "harnesses": [H_VOTE, H_AE_TERM],
}
CHECKS["C06"] = {
    "only": ["C06."],
    "explanation": "C06: requestVote/requestPreVote/appendEntries (term adoption) from an arbitrary R-state with every stable-store call failing independently: one vote per term, "
                   "only to an up-to-date voting member, sticky leader, terms monotone, R1/R2 and the ghost invariant R2+ (a current-term vote record names a candidate that passed this server's log check) preserved.",
    "outside": "torn single writes; ID-less legacy requests (skip the membership test by design)",
    "assumptions": ["RequestVote requests carry a non-empty header ID and name their sender"],
    "harnesses": [H_VOTE, H_PREVOTE, H_AE_TERM],
}
CHECKS["C14"] = {
    "only": ["C14."],
    "explanation": "C14: requestPreVote is a pure function of the state (FRAME: no volatile or durable field changes, no store write) and grants only to up-to-date voting members when no other leader is known.",
    "outside": "cluster-level reconnect timing",
    "assumptions": [],
    "harnesses": [H_PREVOTE],
}
CHECKS["C03"] = {
    "only": ["C03."],
    "explanation": "C03 step lemmas: UPTODATE (first grant only to a candidate whose last (term,index) >= the voter's; a re-grant repeats a vote that passed the check), "
                   "NO-TRUNC-COMMITTED (a follower never deletes at or below its commit/snapshot index).",
    "outside": "the induction over terms (written argument); store durability contract; operator overrides",
    "assumptions": AE_ASSUME,
    "harnesses": [H_VOTE, H_PREVOTE, H_AE_LOG],
}
CHECKS["C04"] = {
    "only": ["C04."],
    "explanation": "C04: appendEntries on arbitrary follower/sender logs: success => log equals the sender's through the last entry sent and the batch is retained; deletion only of the suffix from the first conflicting index; "
                   "log invariant (contiguity, cache, monotone terms) and log matching preserved.",
    "outside": "byte content of Data (content-id equality); pairs of servers beyond receiver/sender",
    "assumptions": AE_ASSUME,
    "harnesses": [H_AE_LOG],
}
CHECKS["C02"] = {
    "only": ["C02."],
    "explanation": "C02: what a follower hands to its FSM from appendEntries: exactly the Command entries lastApplied+1..min(leaderCommit,lastIndex) in order, each identical to the agreed (sender) entry, none skipped, never a truncated/applied index deleted.",
    "outside": "FSM goroutine interleaving beyond channel FIFO; snapshot bytes",
    "assumptions": AE_ASSUME,
    "harnesses": [H_AE_LOG],
}
CHECKS["C05"]["harnesses"].append(H_AE_LOG)
CHECKS["C05"]["assumptions"] += AE_ASSUME
