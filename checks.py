"""Per-property configuration of the checks (harness list, bounds, covers).
Read by ./check. Harness code is in harness/*.go (overlaid into package raft)."""

COMMON_ASSUMPTIONS = [
    "Go front end and go/ssa lowering are correct; the engine's semantics of the SSA instruction kinds it executes (engine/sym/interp.go) match Go",
    "goroutine preemption between two instructions of different goroutines is NOT explored (run-until-blocked coroutine scheduler); select with several ready cases forks on every ready case",
    "sync.Mutex/RWMutex/WaitGroup operations are no-ops; sync/atomic operations are plain loads/stores",
    "hclog.Logger methods, go-metrics functions, fmt.Sprintf/Errorf (fresh opaque strings) are stubs: arguments are evaluated, bodies skipped",
    "strings/[]byte are abstract content ids (equality, length, nil-ness only); byte-level content is never inspected",
    "integers are bit-vectors of their Go width with wrap-around; window base < 2^62 where a harness uses a log window",
    "an unsat verdict covers all values inside the stated bounds and nothing outside them",
]

STUB_NOTES = {
    "hclog.Logger.*": "no-op; arguments evaluated",
    "github.com/hashicorp/go-metrics.*": "no-op",
    "time.Now/Since": "fresh symbolic monotone instant",
    "sort.Sort": "insertion sort driven through the value's real Len/Less/Swap (n<=8), comparisons fork",
}

CHECKS = {}

CHECKS["C05"] = {
    "only": ["C05."],
    "explanation": "C05 is decided as step lemmas over the real commitment code: from an ARBITRARY commitment state (one slot per voter, arbitrary match "
                   "indexes, arbitrary commit/start index) one match()/setConfiguration() call must keep the commit index monotone, raise it only to an index "
                   ">= startIndex held by a strict majority of the voters of the configuration in force, keep exactly one slot per voter and ignore non-voters/strangers.",
    "outside": "'durably stored' relies on the store contract; cluster-level composition is the written argument of DESIGN.md 3.4",
    "assumptions": ["server IDs/addresses within one configuration are pairwise distinct and non-empty (checkConfiguration, itself checked under C07)"],
    "harnesses": [
        {"fn": "vh_C05_commitment_step", "what": "one commitment.match(any id, any index) from an arbitrary state",
         "bounds_quick": "N<=4 servers, symbolic suffrage (any int), 64-bit indexes", "bounds_thorough": "N<=5 servers",
         "covers": ["C05.commitment.advanced", "C05.commitment.stranger", "C05.commitment.nonvoter-match", "C05.commitment.end"]},
        {"fn": "vh_C05_setconfig_step", "what": "one commitment.setConfiguration(any cfg') from an arbitrary state",
         "bounds": "N<=3 old, M<=3 new servers", "covers": ["C05.setconfig.advanced", "C05.setconfig.end"]},
        {"fn": "vh_C05_commitment_seq", "what": "newCommitment + <=2 match calls", "bounds": "N<=3, S<=2",
         "covers": ["C05.seq.advanced", "C05.seq.end"]},
    ],
}
