"""Per-property configuration of the checks (harness list, bounds, covers).
Read by ./check. Harness code is in harness/*.go (overlaid into package raft)."""

COMMON_ASSUMPTIONS = [
    "Go front end and go/ssa lowering are correct; the engine's semantics of the SSA instruction kinds it executes (engine/sym/interp.go) match Go",
    "goroutine preemption between two instructions of different goroutines is NOT explored (run-until-blocked coroutine scheduler); select with several ready cases forks on every ready case",
    "sync.Mutex/RWMutex/WaitGroup operations are no-ops; sync/atomic operations are plain loads/stores",
    "hclog.Logger methods, go-metrics functions, fmt.Sprintf/Errorf (fresh opaque strings) are stubs: arguments are evaluated, bodies skipped",
    "strings/[]byte are abstract content ids (equality, length, nil-ness only); byte-level content is never inspected",
    "integers are bit-vectors of their Go width with wrap-around; window base < 2^62 where a harness uses a log window",
    "an unsat verdict covers all values inside the stated bounds and nothing outside them",
]

STUB_NOTES = {
    "hclog.Logger.*": "no-op; arguments evaluated",
    "github.com/hashicorp/go-metrics.*": "no-op",
    "time.Now/Since": "fresh symbolic monotone instant",
    "sort.Sort": "insertion sort driven through the value's real Len/Less/Swap (n<=8), comparisons fork",
}

CHECKS = {}

CHECKS["C05"] = {
    "only": ["C05."],
    "explanation": "C05 is decided as step lemmas over the real commitment code: from an ARBITRARY commitment state (one slot per voter, arbitrary match "
                   "indexes, arbitrary commit/start index) one match()/setConfiguration() call must keep the commit index monotone, raise it only to an index "
                   ">= startIndex held by a strict majority of the voters of the configuration in force, keep exactly one slot per voter and ignore non-voters/strangers.",
    "outside": "'durably stored' relies on the store contract; cluster-level composition is the written argument of DESIGN.md 3.4",
    "assumptions": ["server IDs/addresses within one configuration are pairwise distinct and non-empty (checkConfiguration, itself checked under C07)"],
    "harnesses": [
        {"fn": "vh_C05_commitment_step", "what": "one commitment.match(any id, any index) from an arbitrary state",
         "bounds_quick": "N<=4 servers, symbolic suffrage (any int), 64-bit indexes", "bounds_thorough": "N<=5 servers",
         "covers": ["C05.commitment.advanced", "C05.commitment.stranger", "C05.commitment.nonvoter-match", "C05.commitment.end"]},
        {"fn": "vh_C05_setconfig_step", "what": "one commitment.setConfiguration(any cfg') from an arbitrary state",
         "bounds": "N<=3 old, M<=3 new servers", "covers": ["C05.setconfig.advanced", "C05.setconfig.end"]},
        {"fn": "vh_C05_commitment_seq", "what": "newCommitment + <=2 match calls", "bounds": "N<=3, S<=2",
         "covers": ["C05.seq.advanced", "C05.seq.end"]},
    ],
}

CHECKS["C07"] = {
    "only": ["C07."],
    "explanation": "C07: nextConfiguration/checkConfiguration are executed on an arbitrary valid configuration and an arbitrary request (all commands incl. out-of-range, "
                   "colliding/empty ids and addresses, any prevIndex); the result must differ by at most one voter, keep >=1 voter and unique ids/addresses, reject a stale "
                   "prevIndex, and never touch the caller's backing array.",
    "outside": "racing membership requests with elections beyond the gate being evaluated on an arbitrary state",
    "assumptions": [],
    "harnesses": [
        {"fn": "vh_C07_check_config", "what": "checkConfiguration(cfg) == nil <=> cfg has unique non-empty ids/addresses and >= 1 voter",
         "bounds_quick": "N<=3 servers, arbitrary suffrage ints, ids/addresses may collide or be empty", "bounds_thorough": "N<=4",
         "covers": ["C07.check.accepted", "C07.check.rejected"]},
        {"fn": "vh_C07_next_config", "what": "one nextConfiguration(current, index, request)",
         "bounds_quick": "N<=3 servers, caller slice with and without spare capacity", "bounds_thorough": "N<=4",
         "covers": ["C07.next.ok", "C07.next.error", "C07.next.stale-prev", "C07.next.addvoter", "C07.next.addnonvoter", "C07.next.demote", "C07.next.remove", "C07.next.promote", "C07.next.unknown-command"]},
    ],
}

CHECKS["C19"] = {
    "only": ["C19."],
    "explanation": "C19: LogCache over a model backend (window of symbolic cells). INDUCTIVE: from an arbitrary (cache, backend) pair satisfying 'every occupied slot "
                   "mirrors the backend entry at its index and sits at index%capacity', one arbitrary StoreLog/StoreLogs/DeleteRange/FirstIndex/LastIndex (backend failures "
                   "injected) preserves the invariant, forwards the call unchanged, and an arbitrary read through the cache equals the direct backend read.",
    "outside": "non-atomic (partial) batch failure of a backend; a caller mutating a *Log after storing it; capacities > 4; window > 3",
    "assumptions": ["window base is a multiple of 12 (so idx%capacity folds for capacity in 1..4); positions are case-split over the window, contents stay symbolic",
                    "the backend fails atomically (an injected failure has no effect)"],
    "harnesses": [
        {"fn": "vh_C19_new", "what": "NewLogCache refuses capacity <= 0 and starts empty", "bounds": "capacity any int <= 4", "covers": ["C19.new.refused"]},
        {"fn": "vh_C19_inductive", "what": "one operation from an arbitrary invariant-satisfying state", "bounds_quick": "capacity 1..3, window W=3, batches of 1-2 logs",
         "bounds_thorough": "capacity 1..4", "covers": ["C19.read.hit-or-forward", "C19.store.backend-error", "C19.delete.backend-error", "C19.inductive.end"]},
        {"fn": "vh_C19_diff", "what": "NewLogCache + S operations, then a read", "bounds_quick": "S=2, capacity 1..3, W=2", "bounds_thorough": "S=3",
         "covers": ["C19.diff.end", "C19.read.hit-or-forward"], "thorough": {"max_paths": 600000}},
    ],
}

# ---- shared harness descriptors ----
H_VOTE = {"fn": "vh_vote_step", "what": "one requestVote from an arbitrary R-state (R1,R2,R2+) with an arbitrary request; every stable-store call may fail; "
          "both conventions for an absent stable key",
          "bounds_quick": "N<=2 servers in the configuration (0 = bootstrap), 64-bit terms/indexes < 2^62", "bounds_thorough": "N<=3",
          "covers": ["vote.granted", "vote.first-grant", "vote.re-grant", "vote.refused", "vote.other-candidate-same-term", "vote.stale-term", "vote.term-adopted", "vote.panic-on-term-write"]}
H_PREVOTE = {"fn": "vh_prevote_step", "what": "one requestPreVote from an arbitrary R-state", "bounds_quick": "N<=2", "bounds_thorough": "N<=3",
             "covers": ["prevote.granted", "prevote.refused"]}
H_AE_TERM = {"fn": "vh_ae_term", "what": "appendEntries term handling / step-down / leader hint on a heartbeat-shaped request; stable-store failures injected",
             "bounds": "window W=1, arbitrary terms, state in {Follower,Candidate,Leader}, transfer-candidate flag symbolic",
             "covers": ["ae.stale-term", "ae.term.success", "ae.term.legacy-leader-field", "ae.term.panic-on-term-write"]}
H_AE_LOG = {"fn": "vh_ae_log", "what": "appendEntries log handling: follower log F and sender log L arbitrary in a window, related by log matching; request built from L "
            "(prev anywhere in L incl. snapshot boundary and base; duplicates; batch ending inside F's log)",
            "bounds_quick": "window W=2 at a symbolic base, E<=2 entries, entry types Command/Noop", "bounds_thorough": "W=3",
            "covers": ["ae.success", "ae.success-with-entries", "ae.rejected", "ae.truncated", "ae.fed-fsm"],
            "thorough": {"max_paths": 400000}}

AE_ASSUME = ["appendEntries log harness: request term = follower's current term and follower state (term handling is decided by vh_ae_term)",
             "hypotheses LM(F,L) (log matching incl. the snapshot point), LC(L,F) (what F knows committed/applied/snapshotted is identical in the sender's log) and NI "
             "(beyond the batch F holds nothing below the leader's commit index that disagrees with L) are ASSUMED in the pre-state; LM is shown preserved",
             "log entries in the window are Command or Noop; configuration entries are handled by dedicated harnesses"]

CHECKS["C01"] = {
    "only": ["C01."],
    "explanation": "C01 is decided as step lemmas (DESIGN 4.1): VOTE-ONCE (a server's durable vote in a term names one candidate; granted only after the record is durable), "
                   "TERM-STEPDOWN (higher term => follower with that term; stale term => no effect), and the quorum glue lemma over the real quorumSize/nextConfiguration.",
    "outside": "composition of the step lemmas into the cluster-level theorem (written argument, DESIGN 3.4); intra-server preemption; message pairing by the transport",
    "assumptions": ["RequestVote requests carry a non-empty header ID and name their sender (Addr or Candidate non-empty)"],
    "harnesses": [H_VOTE, H_AE_TERM],
}
CHECKS["C06"] = {
    "only": ["C06."],
    "explanation": "C06: requestVote/requestPreVote/appendEntries (term adoption) from an arbitrary R-state with every stable-store call failing independently: one vote per term, "
                   "only to an up-to-date voting member, sticky leader, terms monotone, R1/R2 and the ghost invariant R2+ (a current-term vote record names a candidate that passed this server's log check) preserved.",
    "outside": "torn single writes; ID-less legacy requests (skip the membership test by design)",
    "assumptions": ["RequestVote requests carry a non-empty header ID and name their sender"],
    "harnesses": [H_VOTE, H_PREVOTE, H_AE_TERM],
}
CHECKS["C14"] = {
    "only": ["C14."],
    "explanation": "C14: requestPreVote is a pure function of the state (FRAME: no volatile or durable field changes, no store write) and grants only to up-to-date voting members when no other leader is known.",
    "outside": "cluster-level reconnect timing",
    "assumptions": [],
    "harnesses": [H_PREVOTE],
}
CHECKS["C03"] = {
    "only": ["C03."],
    "explanation": "C03 step lemmas: UPTODATE (first grant only to a candidate whose last (term,index) >= the voter's; a re-grant repeats a vote that passed the check), "
                   "NO-TRUNC-COMMITTED (a follower never deletes at or below its commit/snapshot index).",
    "outside": "the induction over terms (written argument); store durability contract; operator overrides",
    "assumptions": AE_ASSUME,
    "harnesses": [H_VOTE, H_PREVOTE, H_AE_LOG],
}
CHECKS["C04"] = {
    "only": ["C04."],
    "explanation": "C04: appendEntries on arbitrary follower/sender logs: success => log equals the sender's through the last entry sent and the batch is retained; deletion only of the suffix from the first conflicting index; "
                   "log invariant (contiguity, cache, monotone terms) and log matching preserved.",
    "outside": "byte content of Data (content-id equality); pairs of servers beyond receiver/sender",
    "assumptions": AE_ASSUME,
    "harnesses": [H_AE_LOG],
}
CHECKS["C02"] = {
    "only": ["C02."],
    "explanation": "C02: what a follower hands to its FSM from appendEntries: exactly the Command entries lastApplied+1..min(leaderCommit,lastIndex) in order, each identical to the agreed (sender) entry, none skipped, never a truncated/applied index deleted.",
    "outside": "FSM goroutine interleaving beyond channel FIFO; snapshot bytes",
    "assumptions": AE_ASSUME,
    "harnesses": [H_AE_LOG],
}
CHECKS["C05"]["harnesses"].append(H_AE_LOG)
CHECKS["C05"]["assumptions"] += AE_ASSUME

# ---- second batch of harness descriptors ----
H_REPL = {"fn": "vh_replicate_step", "what": "one AppendEntries round of replicateTo on an arbitrary leader (log/snapshot shapes in a window) with an arbitrary follower response or RPC error",
          "bounds": "window W=3, MaxAppendEntries in {1,2}, nextIndex anywhere in [base, last+1]",
          "covers": ["repl.success", "repl.rejected", "repl.stale-term", "repl.rpc-error", "repl.needs-snapshot", "repl.prev-is-snapshot"]}
H_LEASE = {"fn": "vh_lease_step", "what": "one checkLeaderLease on an arbitrary leader: arbitrary suffrages, arbitrary last-contact instants, arbitrary lease >= 5ms, symbolic clock",
           "bounds_quick": "N<=3 servers", "bounds_thorough": "N<=4", "covers": ["lease.stepdown", "lease.stay"],
           "opts": {"timeout_ms": 8000}}
H_VERIFY = {"fn": "vh_verify_count", "what": "verifyLeader + acknowledgements (success / failure / silence per peer) + the verify case of leaderLoop",
            "bounds_quick": "N<=3 servers of symbolic suffrage", "bounds_thorough": "N<=4",
            "covers": ["verify.success", "verify.failed", "verify.pending", "verify.immediate"]}
H_COMPACT = {"fn": "vh_compact_arith", "what": "compactLogsWithTrailing(snapIdx, lastLogIdx, trailing) with arbitrary 64-bit arguments on an arbitrary store; store calls may fail",
             "bounds": "full 64-bit arithmetic (no < 2^62 assumption on the arguments), store window W=3", "covers": ["compact.deleted", "compact.nothing", "compact.error"]}
H_REMOVEOLD = {"fn": "vh_remove_old_logs", "what": "removeOldLogs deletes exactly [first,last]", "bounds": "W=3", "covers": ["removeold.deleted"]}
H_BACKOFF = {"fn": "vh_backoff", "what": "backoff / cappedExponentialBackoff for arbitrary round, limit<=16", "bounds": "unwinding 20 (derived: power <= limit <= 16)",
             "opts": {"unwind": 24}, "covers": ["backoff.end"]}
H_DISPATCH = {"fn": "vh_dispatch", "what": "dispatchLogs with 1-2 futures on an arbitrary leader; StoreLogs may fail", "bounds": "W=3", "covers": ["dispatch.stored", "dispatch.store-failed"]}
H_FSM = {"fn": "vh_fsm_pairing", "what": "runFSM serving one batch (Command/Barrier/Configuration tuples, with/without futures) on plain, batching and configuration-store FSMs",
         "bounds_quick": "batch of <=2 tuples", "bounds_thorough": "<=3 tuples", "covers": ["fsm.future-command", "fsm.future-barrier"], "covers_only": False}
H_LCOMMIT = {"fn": "vh_leader_commit", "what": "the commit case of leaderLoop (one iteration) with 0-2 in-flight futures and an uncommitted or committed latest configuration",
             "bounds_quick": "W=2", "bounds_thorough": "W=3", "covers": ["commit.future-committed", "commit.future-stays", "commit.config-committed", "commit.leader-removed"],
             "thorough": {"max_paths": 300000}}
H_LAPPLY = {"fn": "vh_leader_apply", "what": "the applyCh case of leaderLoop with 1-2 queued futures, with and without a leadership transfer in progress", "bounds": "W=3",
            "covers": ["apply.dispatched", "apply.refused"]}
H_GATE = {"fn": "vh_gate", "what": "a membership request offered to leaderLoop: consumed only when latest==committed and an own-term entry is committed; then appendConfigurationEntry",
          "bounds_quick": "N=2 servers, W=3 with one log shape, arbitrary request", "bounds_thorough": "all log shapes", "thorough": {"max_paths": 300000}, "covers": ["gate.open", "gate.closed", "gate.transfer", "gate.rejected", "gate.appended"]}
H_INSTALL = {"fn": "vh_install_snapshot", "what": "installSnapshot (FSM goroutine running) on arbitrary follower log shapes, gap-tolerant and monotonic stores, snapshot index anywhere in the sender's log",
             "bounds_quick": "W=2", "bounds_thorough": "W=3", "covers": ["install.success"]}
H_INSTALL_F = {"fn": "vh_install_faults", "what": "installSnapshot with every snapshot-store / copy / FSM.Restore fault and every term relation", "bounds": "W=1",
               "covers": ["install.success", "install.failed", "install.stale-term"]}
H_CAND = {"fn": "vh_candidate", "what": "runCandidate + preElectSelf/electSelf to the first park with arbitrary per-peer (term, granted, error) answers; pre-vote on/off; transfer flag; stable faults for N=1",
          "bounds_quick": "N<=2 servers of symbolic suffrage, self in or out of the configuration", "bounds_thorough": "N<=3", "allow": ["PANIC"],
          "covers": ["candidate.won", "candidate.prevote-lost", "candidate.prevote-higher-term"], "thorough": {"max_paths": 900000, "max_seconds": 7000}}
H_SETUP = {"fn": "vh_setup_leader", "what": "setupLeaderState on an arbitrary server", "bounds": "N<=3", "covers": ["setup.end"]}

D3_NOTE = "installSnapshot obligations are split by the known-finding cause D3 (follower log lacks the snapshot's last entry, or monotonic store wiped with the cached last-log position kept)"

CHECKS["C01"]["harnesses"] += [H_CAND, H_REPL, H_INSTALL_F]
CHECKS["C06"]["harnesses"] += [H_CAND]
CHECKS["C14"]["harnesses"] += [H_CAND]
CHECKS["C03"]["harnesses"] += [H_DISPATCH, H_SETUP]
CHECKS["C04"]["harnesses"] += [H_REPL, H_INSTALL]
CHECKS["C04"]["assumptions"] = CHECKS["C04"]["assumptions"] + [D3_NOTE]
CHECKS["C02"]["harnesses"] += [H_FSM, H_LCOMMIT, H_INSTALL, H_INSTALL_F]
CHECKS["C02"]["assumptions"] = CHECKS["C02"]["assumptions"] + [D3_NOTE]
CHECKS["C05"]["harnesses"] += [H_REPL, H_DISPATCH, H_LCOMMIT, H_SETUP]
CHECKS["C07"]["harnesses"] += [H_GATE, H_LCOMMIT, H_CAND, H_VOTE]

CHECKS["C08"] = {
    "only": ["C08."],
    "explanation": "C08: the leader-side path of an Apply: dispatchLogs assigns consecutive indexes in the current term, one StoreLogs, futures in flight in index order, failure answers every future; the applyCh case refuses during transfer without storing; the commit case hands exactly the committed futures to the FSM with their own log; runFSM pairs each future with the FSM's response for that very entry.",
    "outside": "real-time order between client goroutines; ErrLeadershipLost/store errors are indeterminate by the API's documentation",
    "assumptions": [],
    "harnesses": [H_DISPATCH, H_LAPPLY, H_LCOMMIT, H_FSM, H_SETUP],
}
CHECKS["C09"] = {
    "only": ["C09."],
    "explanation": "C09: verifyLeader/notifyAll/vote and the verify case of leaderLoop with every pattern of success/failure/silence per peer: success only with a majority of voters (self included); a negative acknowledgement before the quorum fails the future and steps down; an AppendEntries acknowledgement is never produced for a superseded term.",
    "outside": "freshness against a heartbeat already in flight when VerifyLeader was called (goroutine interleaving, D10); a non-voting leader counting itself",
    "assumptions": ["each peer acknowledges at most once per verification round in vh_verify_count (repeat acknowledgements are covered by vh_verify_repeat)"],
    "harnesses": [H_VERIFY, H_AE_TERM, H_REPL],
}
CHECKS["C11"] = {
    "only": ["C11."],
    "explanation": "C11: compaction arithmetic for arbitrary 64-bit arguments (only [first, min(snapIdx, last-trailing)] is deleted, no underflow, entries above the snapshot and the newest TrailingLogs survive), removeOldLogs, and the ordering/atomicity of installSnapshot (durable sink before Restore before lastSnapshot moves; failures change nothing).",
    "outside": "snapshot bytes (io.Copy is a stub moving a byte count); takeSnapshot session; FileSnapshotStore durability (C15)",
    "assumptions": [D3_NOTE],
    "harnesses": [H_COMPACT, H_REMOVEOLD, H_INSTALL, H_INSTALL_F],
}
CHECKS["C12"] = {
    "only": ["C12."],
    "explanation": "C12 (catch-up half, step form): the back-track rule of replicateTo strictly decreases nextIndex (>=1), success advances it to the last entry sent +1, failures are counted and back-off is bounded without overflow; after installSnapshot the follower state must let the next AppendEntries succeed (no stale tail) - split by the known finding D3.",
    "outside": "election liveness within a bounded number of timeouts (randomised timers; not decided); multi-RPC catch-up session",
    "assumptions": [D3_NOTE],
    "harnesses": [H_REPL, H_BACKOFF, H_INSTALL],
}
CHECKS["C13"] = {
    "only": ["C13."],
    "explanation": "C13: checkLeaderLease steps down iff fewer than a quorum of voters (self included if a voter) were contacted within the lease; non-voters are irrelevant; maxDiff is the largest contacted-voter age; the next check is due no later than max(lastContact_p+lease, now+10ms) for every counted voter p (inductive step of the 'within lease+10ms+slack' bound).",
    "outside": "real timer latency and goroutine scheduling delay (symbolic slack); leases below 10ms give lease+10ms rather than 2*lease",
    "assumptions": ["last-contact instants lie in the past of the check instant; time.Now is a symbolic monotone clock"],
    "harnesses": [H_LEASE],
}

CHECKS["C18"] = {
    "only": ["C18."],
    "explanation": "C18: leader-hint faithfulness as step lemmas: every handler that moves a follower to a new term clears the hint or sets it to the sender of that very AppendEntries/InstallSnapshot; a lease step-down clears it; an election win sets it to self; overrideNotifyBool leaves exactly the latest value in LeaderCh; runLeader sends true then false on NotifyCh.",
    "outside": "shutdown-race best-effort sends; consumer scheduling; that the sender of an AppendEntries for term T really was leader of T is C01",
    "assumptions": [],
    "harnesses": [H_VOTE, H_AE_TERM, H_LEASE, H_CAND, H_INSTALL_F],
}

H_RESTORE = {"fn": "vh_user_restore", "what": "restoreUserSnapshot on an arbitrary leader with 0-2 in-flight futures, arbitrary snapshot meta, snapshot-store/copy faults, gap-tolerant and monotonic stores; FSM goroutine running",
             "bounds": "W=2, meta.Index < 2^62", "covers": ["restore.success", "restore.failed", "restore.refused"]}
H_RESTORE_GATE = {"fn": "vh_restore_gate", "what": "the userRestoreCh case of leaderLoop during a leadership transfer", "bounds": "W=1", "covers": ["restoregate.end"]}
H_RUNLEADER = {"fn": "vh_run_leader", "what": "a whole runLeader activation: prologue (notify true, no-op), two applies + a verify left pending, step-down by stepDown channel or by a state change on the main thread, epilogue",
               "bounds": "2 voters, W=3, NotifyCh nil/buffered, LeaderCh empty or holding a stale value", "covers": ["runleader.end"]}
H_OVERRIDE = {"fn": "vh_override_notify", "what": "overrideNotifyBool on a capacity-1 channel that is empty or holds either value", "bounds": "exhaustive", "covers": ["override.end"]}
H_SHUTDOWN = {"fn": "vh_shutdown_api", "what": "after Shutdown every public call (Apply, Barrier, VerifyLeader, AddVoter, RemoveServer, Snapshot, Restore, LeadershipTransfer, GetConfiguration, BootstrapCluster) followed by Error(); every outcome of every multi-ready select forked; buffered and unbuffered applyCh",
              "bounds": "10 API calls x 2 channel shapes, all select outcomes", "allow": ["DEADLOCK"], "covers": ["shutdown.call-returned"]}
H_FUTURE = {"fn": "vh_future_once", "what": "deferError respond/Error: first response wins, repeats, ShutdownCh resolves", "bounds": "exhaustive", "covers": ["future.end"]}

CHECKS["C20"] = {
    "only": ["C20."],
    "explanation": "C20: restoreUserSnapshot step: refused without any effect while a configuration change is uncommitted / version unsupported / (loop case) transfer in progress; otherwise every in-flight future is aborted with ErrAbortedByRestore, the snapshot is created at max(meta.Index,lastIndex)+1 in the current term with the latest configuration, the FSM restores it once, lastLog/lastApplied/lastSnapshot move to that burned index, a monotonic log is emptied; failures before the restore change no position.",
    "outside": "concurrent Apply goroutines beyond the in-flight list; followers' catch-up after the restore (inherits D3); the trailing no-op of Raft.Restore",
    "assumptions": ["the model FSM's Restore and the snapshot Open succeed (a failing restore panics by design)"],
    "harnesses": [H_RESTORE, H_RESTORE_GATE],
}
CHECKS["C17"] = {
    "only": ["C17."],
    "explanation": "C17 (ownership core): after shutdown every public call followed by Error() returns (a DEADLOCK of the caller is a violation), with every select outcome explored; on step-down runLeader answers every in-flight and verify future; dispatch failures, restores and transfer refusals answer every future they consumed; deferError semantics.",
    "outside": "'within bounded time while the server runs' (liveness over arbitrary schedules), starvation, interleavings finer than run-until-blocked",
    "assumptions": [],
    "harnesses": [H_SHUTDOWN, H_FUTURE, H_RUNLEADER, H_DISPATCH, H_LAPPLY, H_RESTORE],
}
CHECKS["C18"]["harnesses"] += [H_RUNLEADER, H_OVERRIDE]
CHECKS["C08"]["harnesses"] += [H_RUNLEADER]
CHECKS["C12"]["harnesses"] += [H_RUNLEADER]
CHECKS["C05"]["harnesses"] += [H_RUNLEADER]

H_NEWRAFT = {"fn": "vh_newraft", "what": "NewRaft on an arbitrary durable image", "bounds_quick": "log window W=2, <=1 configuration entry, <=2 snapshots (each usable or not), plain / commit-tracking store",
             "bounds_thorough": "W=3", "covers": ["newraft.ok", "newraft.snapshot-restored", "newraft.config-from-log", "newraft.config-from-snapshot", "newraft.replayed-committed", "newraft.no-usable-snapshot"]}
CHECKS["C10"] = {
    "only": ["C10."],
    "explanation": "C10: the real NewRaft is executed on an arbitrary durable image satisfying the durable invariant (log contiguous, reaching down to the newest snapshot): it must return (no panic, no deadlock), resume with the durable term and last log, restore the newest usable snapshot into the FSM once, recover the latest configuration from the log or snapshot, leave the vote record untouched and, with RestoreCommittedLogs, replay exactly snapshot+1..min(staged commit, last) in order.",
    "outside": "which images a crash can leave (CRASH-CLOSED not built: the durable invariant is assumed); real disk stores; more than 128 batches to replay before runFSM starts (D6, found by the scratch probe, not encoded)",
    "assumptions": ["durable image: log contiguous; with snapshots the log's first index <= newest snapshot index + 1; without snapshots the log starts at 1; terms <= stable term"],
    "harnesses": [H_NEWRAFT],
}

H_SESSION = {"fn": "vh_catchup_session", "what": "two real objects: a freshly elected leader runs replicateTo against a follower whose transport delivers each AppendEntries to the follower's real appendEntries; "
             "follower log arbitrary (stale suffix, shorter, longer, compacted to its snapshot) related to the leader's only by log matching and leader completeness; runs until caught up",
             "bounds_quick": "W=2, all entries Command, MaxAppendEntries=1, at most 2W+3 RPCs (checked)", "bounds_thorough": "W=2, Command/Noop mixes, MaxAppendEntries in {1,2}",
             "covers": ["session.done", "session.fed-fsm"], "opts": {"max_paths": 200000}, "thorough": {"max_paths": 2000000, "max_seconds": 7000}}
H_SESSION_THOROUGH = dict(H_SESSION, quick={"skip": True})
CHECKS["C12"]["harnesses"] += [H_SESSION]
CHECKS["C02"]["harnesses"] += [H_SESSION_THOROUGH]
CHECKS["C04"]["harnesses"] += [H_SESSION_THOROUGH]
CHECKS["C05"]["harnesses"] += [H_SESSION_THOROUGH]
CHECKS["C12"]["explanation"] += " SESSION: a fresh leader's replicateTo runs against a real follower object until nextIndex passes the end: the follower's log then equals the leader's above its snapshot, no stale entry is left, the FSM was fed only the leader's committed entries, within 2W+3 RPCs."

H_FOLLOWER = {"fn": "vh_follower_loop", "what": "runFollower to its first park with one client item queued (each queue in turn) and the heartbeat timer firing or not; self voter / non-voter / absent; latest configuration committed or not",
              "bounds": "N<=2 servers, 6 queues x timer x membership", "covers": ["follower.apply-refused", "follower.became-candidate", "follower.stayed"]}
H_TAKESNAP = {"fn": "vh_take_snapshot", "what": "takeSnapshot together with the real runFSM goroutine and the real runFollower loop (answers the configurations request); FSM.Snapshot / Persist / snapshot-store faults; TrailingLogs 0..2",
              "bounds": "W=2", "covers": ["snapshot.taken", "snapshot.failed", "snapshot.nothing-applied"]}
for p in ["C17", "C07", "C13", "C08", "C18", "C14", "C06"]:
    CHECKS[p]["harnesses"].append(H_FOLLOWER)
CHECKS["C11"]["harnesses"].append(H_TAKESNAP)
CHECKS["C11"]["explanation"] += " TAKE-SNAPSHOT: takeSnapshot with the real FSM goroutine and main loop: the sink is stamped with the FSM goroutine's (lastIndex,lastTerm) and the main loop's committed configuration, refused while that configuration is not yet applied, durable before lastSnapshot moves and before compaction; failures move nothing."

H_GLUE = {"fn": "vh_quorum_glue", "what": "quorum intersection over the real quorumSize and nextConfiguration: arbitrary voter subsets of a configuration and of its successor (or itself)",
          "bounds_quick": "N<=3 servers (+1 added)", "bounds_thorough": "N<=4", "covers": ["glue.changed", "glue.end"]}
H_VALIDATE = {"fn": "vh_validate_config", "what": "ValidateConfig on arbitrary durations", "bounds": "full 64-bit durations", "covers": ["validate.accepted", "validate.rejected"]}
H_PLSHUT = {"fn": "vh_processlogs_shutdown", "what": "processLogs with a full FSM channel after shutdown", "bounds": "W=2", "covers": ["plshutdown.end"]}
for p in ["C01", "C07", "C05"]:
    CHECKS[p]["harnesses"].append(H_GLUE)
for p in ["C13", "C08"]:
    CHECKS[p]["harnesses"].append(H_VALIDATE)
CHECKS["C17"]["harnesses"].append(H_PLSHUT)

H_FSCRASH = {"fn": "vh_filesnap_crash", "what": "FileSnapshotStore Create+Write+Close or Cancel with a crash before any one of its file-system steps (or none), over 0-1(2) pre-existing durable snapshots, retain 1..2; "
             "then a fresh store's List/Open on every possible post-crash disk state", "bounds_quick": "<=1 pre-existing snapshot, 18 crash points, one Write", "bounds_thorough": "<=2 pre-existing snapshots",
             "covers": ["filesnap.crashed", "filesnap.closed-ok", "filesnap.cancelled", "filesnap.interrupted-but-complete"], "thorough": {"max_paths": 400000}}
H_FSCORRUPT = {"fn": "vh_filesnap_corrupt", "what": "bit rot in a durable state.bin or meta.json, then List/Open", "bounds": "one snapshot", "covers": ["filesnap.corrupt-open-fails", "filesnap.corrupt-open-ok"]}
CHECKS["C15"] = {
    "only": ["C15."],
    "explanation": "C15: the real FileSnapshotStore code (Create, Write, Close, Cancel, finalize, writeMeta, List, getSnapshots, readMeta, Open, ReapSnapshots, snapMetaSlice) runs over a file-system MODEL (engine/sym/fs.go): "
                   "a crash is scheduled before each file-system call in turn; the post-crash disk keeps, per directory, a prefix of the not-yet-durable entry operations and, per file with unsynced data, old / new / torn content (all combinations forked); "
                   "then a fresh store must list only snapshots that open with exactly the written content (checksum verified), newest first, at most `retain`; a Close that returned nil is listed unless `retain` newer ones exist; a cancelled one never; the newest pre-existing ones survive.",
    "outside": "real file-system semantics beyond the model; Windows; more than one Write call; the constructor's permission test; noSync=true",
    "assumptions": ["FILE-SYSTEM MODEL: fsync(file) makes the file's data and its own directory entry durable; fsync(directory) makes all its pending entry operations durable; un-synced directory operations reach disk in order (a prefix survives a crash); un-synced file data is old, new or torn after a crash",
                    "no CRC-64 collisions among the contents a path looks at; json encode/decode is an abstract bijection (a torn or empty file does not decode); bufio.Writer is modelled as a pending list flushed by Flush",
                    "snapshotName returns pairwise distinct names (snap-1, snap-2, ...) instead of term-index-milliseconds"],
    "harnesses": [H_FSCRASH, H_FSCORRUPT],
}

H_SENDSNAP = {"fn": "vh_send_snapshot", "what": "sendLatestSnapshot on an arbitrary leader with 0-2 snapshots in its store and an arbitrary follower response / RPC error / store fault",
              "bounds": "N=2, <=2 snapshots", "covers": ["snap.success", "snap.rejected", "snap.rpc-error", "snap.stale-term", "snap.not-sent"]}
for p in ["C12", "C05", "C01", "C11", "C09"]:
    CHECKS[p]["harnesses"].append(H_SENDSNAP)

H_HEARTBEAT = {"fn": "vh_heartbeat", "what": "one round of the heartbeat loop (forced by notifyCh) with an arbitrary follower answer or RPC error", "bounds": "N=2", "covers": ["heartbeat.ack", "heartbeat.nack", "heartbeat.rpc-error"]}
for p in ["C09", "C13", "C01", "C05"]:
    CHECKS[p]["harnesses"].append(H_HEARTBEAT)

H_PIPELINE = {"fn": "vh_pipeline_decode", "what": "pipelineDecode consuming one pipelined AppendEntries response (arbitrary term/success, 0-2 entries)", "bounds": "N=2", "covers": ["pipeline.success", "pipeline.rejected", "pipeline.stale-term"]}
H_ELECT = {"fn": "vh_elect_self", "what": "electSelf with every stable-store write failing or not (a failure models a crash at that point): durable invariant and write order", "bounds": "single voter, 3 writes", "covers": ["elect.self-vote-counted", "elect.self-vote-not-counted", "elect.term-write-failed"]}
H_AE_FAULTS = {"fn": "vh_ae_faults", "what": "appendEntries with failing GetLog/DeleteRange/StoreLogs: a failed write is never acknowledged; the cached last-log position never contradicts the store; the log invariant the convergence obligations start from survives every failure", "bounds": "W=2, E<=2", "covers": ["aefault.write-failed", "aefault.truncated-then-store-failed", "aefault.end"]}
for p in ["C05", "C01", "C09", "C12"]:
    CHECKS[p]["harnesses"].append(H_PIPELINE)
for p in ["C06", "C01"]:
    CHECKS[p]["harnesses"].append(H_ELECT)
for p in ["C03", "C04", "C05", "C12"]:
    CHECKS[p]["harnesses"].append(H_AE_FAULTS)
CHECKS["C02"]["harnesses"].append(H_HEARTBEAT)

H_CAND_TIMEOUT = {"fn": "vh_candidate_timeout", "what": "an election round ended by the election timer with nobody answering: transfer privilege reset, isolated pre-vote round keeps the term", "bounds": "2 voters", "covers": ["timeout.prevote-round", "timeout.real-election-round"]}
H_LEASE_LOOP = {"fn": "vh_lease_loop", "what": "leaderLoop with the lease timer due and 0-2 client applies queued, contacts older than the lease: the lease check must run on every select order", "bounds": "2 voters, one log shape", "covers": ["leaseloop.end"]}
H_TRANSFER = {"fn": "vh_leadership_transfer", "what": "the leadershipTransferCh case of leaderLoop with its helper goroutines to quiescence; helper timers elapse at once or only when nothing else can run; TimeoutNow succeeds or fails; target named or picked",
              "bounds": "2 voters, target caught up", "covers": ["transfer.reported-error", "transfer.end"]}
CHECKS["C14"]["harnesses"].append(H_CAND_TIMEOUT)
CHECKS["C13"]["harnesses"].append(H_LEASE_LOOP)
CHECKS["C17"]["harnesses"].append(H_TRANSFER)
CHECKS["C12"]["harnesses"].append(H_CAND)
CHECKS["C10"]["harnesses"].append(H_INSTALL_F)
CHECKS["C10"]["explanation"] += " Also: installSnapshot's durable snapshot record (what a restart reads back) carries the request's (LastLogIndex, LastLogTerm)."

H_AE_CONFIG = {"fn": "vh_ae_config", "what": "appendEntries carrying / truncating configuration entries: latest and committed configuration follow the log (truncation falls back to committed, received entry becomes latest, commit index commits it)",
               "bounds": "follower log of 2 entries with an uncommitted configuration entry, 1 request entry (Command or Configuration, duplicate or conflicting)", "covers": ["aeconfig.duplicate", "aeconfig.replaced-by-config", "aeconfig.replaced-by-command", "aeconfig.latest-committed"]}
CHECKS["C07"]["harnesses"].append(H_AE_CONFIG)
H_AE_CONFIG2 = {"fn": "vh_ae_config_append", "what": "a configuration entry appended after the follower's uncommitted latest configuration", "bounds": "1 entry", "covers": ["aeconfig.previous-latest-committed", "aeconfig.new-config-committed-at-once"]}
CHECKS["C07"]["harnesses"].append(H_AE_CONFIG2)

H_APPLY_API = {"fn": "vh_apply_api", "what": "Apply/Barrier with a timeout while nobody receives from applyCh (buffered full / unbuffered): ErrEnqueueTimeout and nothing enqueued", "bounds": "exhaustive", "covers": ["applyapi.end"]}
H_TIMEOUTNOW = {"fn": "vh_timeout_now", "what": "the TimeoutNow handler on an arbitrary server", "bounds": "N=1", "covers": ["timeoutnow.end"]}
CHECKS["C08"]["harnesses"].append(H_APPLY_API)
for p in ["C14", "C18", "C06"]:
    CHECKS[p]["harnesses"].append(H_TIMEOUTNOW)

H_FSMPOS = {"fn": "vh_fsm_position", "what": "runFSM's (lastIndex,lastTerm) as reported to a snapshot request after a batch, after a restore, after a failed restore", "bounds": "3 scenarios", "covers": ["fsmpos.after-batch", "fsmpos.after-restore", "fsmpos.after-failed-restore"]}
for p in ["C11", "C02"]:
    CHECKS[p]["harnesses"].append(H_FSMPOS)

CHECKS["C07"]["harnesses"].append(H_TRANSFER)
H_GATE_FAULTS = {"fn": "vh_gate_faults", "what": "the membership case of leaderLoop with the gate open and StoreLogs/DeleteRange failing: a configuration entry that was not stored is answered with an error, the leader steps down and keeps the configuration its log holds",
                 "bounds": "2 servers, one log shape, any request", "covers": ["gatefault.store-failed", "gatefault.end"]}
for p in ["C07", "C05", "C17"]:
    CHECKS[p]["harnesses"].append(H_GATE_FAULTS)

H_RUNSNAP = {"fn": "vh_run_snapshots", "what": "runSnapshots serving one user snapshot request with the real FSM goroutine and follower loop; FSM snapshot/persist faults", "bounds": "W=2", "covers": ["usersnapshot.ok", "usersnapshot.failed"]}
for p in ["C17", "C11"]:
    CHECKS[p]["harnesses"].append(H_RUNSNAP)
for p in ["C17", "C08", "C09"]:
    CHECKS[p]["harnesses"].append(H_CAND_TIMEOUT)

CHECKS["C10"]["harnesses"] += [H_DISPATCH, H_AE_LOG]
CHECKS["C10"]["assumptions"] = CHECKS["C10"]["assumptions"] + AE_ASSUME

CHECKS["C03"]["harnesses"].append(H_GATE)
CHECKS["C02"]["harnesses"].append(H_TAKESNAP)

H_LEASE_REARM = {"fn": "vh_lease_rearm", "what": "the lease case of leaderLoop with the quorum in contact: stays leader and re-arms the check within one lease (LeaderLeaseTimeout 500ms, HeartbeatTimeout 3s)", "bounds": "2 voters", "covers": ["rearm.stays-leader"]}
H_PROCRPC = {"fn": "vh_process_rpc", "what": "processRPC dispatch of RequestVote / RequestPreVote with pre-vote enabled or disabled locally", "bounds": "N=1", "covers": ["processrpc.end"]}
CHECKS["C13"]["harnesses"].append(H_LEASE_REARM)
CHECKS["C14"]["harnesses"].append(H_PROCRPC)
CHECKS["C12"]["harnesses"].append(H_RESTORE)
CHECKS["C19"]["harnesses"][2]["thorough"] = {"max_paths": 1500000, "max_seconds": 9000}

# ---- round 4: crash-point enumeration, read faults, re-addressing, volatile flags ----
CRASH_NOTE = ("crash points: every durable mutating call of the model stores (StableStore.Set/SetUint64, LogStore.StoreLogs/DeleteRange, StageCommitIndex, SnapshotSink.Close) is offered as "
              "'the process dies before this call takes effect'; the REAL NewRaft then runs on the stores as they are. Each single store call is atomic (torn writes inside one call are outside the claim)")
H_CRASH_AE = {"fn": "vh_crash_ae", "what": "appendEntries (same/newer term, truncation, append, staged commit index) x crash before any durable call or after completion x real NewRaft (with RestoreCommittedLogs on a commit-tracking store): "
              "recovered server satisfies the representation invariant, term never regresses, vote record untouched, everything known committed survives identically, acknowledged entries are durable, replay hands the FSM only agreed entries",
              "bounds_quick": "W=2, E<=2, leader commit index in {nothing, everything}, lastApplied = snapshot index, <=5 crash points per run (checked)", "bounds_thorough": "W=2, every commit / applied / leader-commit position",
              "covers": ["crash.ae.crashed", "crash.ae.acked-then-crashed", "crash.ae.replayed", "crash.ae.end"], "opts": {"max_paths": 200000}, "thorough": {"max_paths": 2000000, "max_seconds": 7000}}
H_CRASH_AE_THOROUGH = dict(H_CRASH_AE, quick={"skip": True})
H_CRASH_VOTE = {"fn": "vh_crash_vote", "what": "requestVote x crash before any stable-store write or after the reply x real NewRaft x a second requestVote (same term or the old term, any candidate) on the recovered server: "
                "a vote granted (or on record) before the crash binds the server afterwards; the replied term is durable; durable vote term never ahead of the durable term",
                "bounds_quick": "N=1 server in the configuration, one log shape, <=4 crash points (checked)", "bounds_thorough": "N<=2, both absent-key conventions, one log shape",
                "covers": ["crash.vote.crashed", "crash.vote.granted-twice-same-term", "crash.vote.earlier-record-same-term", "crash.vote.end"], "opts": {"max_paths": 200000}, "thorough": {"max_paths": 2000000, "max_seconds": 7000}}
H_CRASH_INSTALL = {"fn": "vh_crash_install", "what": "installSnapshot (real FSM goroutine) x crash point x real NewRaft: restart restores the old snapshot or the complete new one, an acknowledged snapshot is durable, nothing above the recovered snapshot is lost, "
                   "nothing is compacted before the new snapshot is durable, recovered server satisfies the invariant (known finding D3 excepted)",
                   "bounds": "W=2, plain and monotonic stores, snapshot index >= the follower's own snapshot index, <=5 crash points (checked)",
                   "covers": ["crash.install.crashed", "crash.install.success-then-crashed", "crash.install.new-snapshot-recovered", "crash.install.old-snapshot-recovered"]}
H_CRASH_SNAP = {"fn": "vh_crash_snapshot", "what": "takeSnapshot + compactLogs (real runFSM and runFollower goroutines, TrailingLogs 0..2) x crash point x real NewRaft: old or complete new snapshot, no compaction before durable, nothing above the recovered snapshot lost, invariant",
                "bounds": "W=2, <=4 crash points (checked)", "covers": ["crash.snapshot.crashed", "crash.snapshot.new-snapshot-recovered", "crash.snapshot.old-snapshot-recovered"]}
H_CRASH_RESTORE = {"fn": "vh_crash_user_restore", "what": "restoreUserSnapshot on a leader x crash point x real NewRaft: restart is entirely before the restore or entirely after it (user snapshot at the burned index restored into the FSM, burned index survives)",
                   "bounds": "W=2, plain and monotonic stores, meta.Index <= last index, <=4 crash points (checked)", "covers": ["crash.restore.crashed", "crash.restore.user-snapshot-recovered", "crash.restore.old-state-recovered"]}
H_PLFAULT = {"fn": "vh_processlogs_faults", "what": "processLogs whose log-store reads may fail, then a second processLogs (next commit advance): each committed index reaches the FSM at most once, in order; lastApplied covers what was handed over",
             "bounds": "W=3, MaxAppendEntries in {1,2}, any two targets", "allow": ["PANIC"], "covers": ["plfault.fed", "plfault.panicked", "plfault.end"]}
H_HB_READDR = {"fn": "vh_heartbeat_readdress", "what": "two heartbeat rounds with the follower re-addressed in between by the real startStopReplication: the second heartbeat goes to the new address", "bounds": "2 servers", "covers": ["readdress.end"]}
H_NOOP_FAULT = {"fn": "vh_run_leader_noop_fault", "what": "a runLeader activation whose first log write (the no-op) fails: gain and loss are both announced, in order", "bounds": "2 voters, W=2, NotifyCh nil/buffered, LeaderCh empty or stale",
                "covers": ["noopfault.stored", "noopfault.failed", "noopfault.end"]}
H_APPLY_RACE = {"fn": "vh_leader_apply_racing_transfer", "what": "the applyCh case of leaderLoop with the transfer-in-progress flag VOLATILE: every atomic load of it returns an arbitrary value (the transfer supervisor goroutine resets it asynchronously); "
                "a call answered with ErrLeadershipTransferInProgress was never given an index nor put in flight", "bounds": "W=3, 1-2 queued calls, every 0/1 value at every load", "covers": ["race.refused", "race.dispatched", "race.end"]}

CHECKS["C10"]["harnesses"] += [H_CRASH_AE, H_CRASH_VOTE, H_CRASH_INSTALL, H_CRASH_SNAP, H_CRASH_RESTORE]
CHECKS["C10"]["assumptions"] = CHECKS["C10"]["assumptions"] + [CRASH_NOTE, D3_NOTE]
CHECKS["C10"]["explanation"] += (" CRASH-CLOSED: appendEntries, requestVote, installSnapshot, takeSnapshot+compactLogs and restoreUserSnapshot are each run from an arbitrary invariant-satisfying state with a crash before any one of their "
                                 "durable store calls (or none); the real NewRaft then runs on the resulting stores and must return a server satisfying the representation invariant the step obligations start from, with the durable term, "
                                 "the newest complete snapshot, the configuration, and everything that was known committed or acknowledged.")
CHECKS["C10"]["outside"] = "real disk stores; torn writes inside a single store call; more than 128 batches to replay before runFSM starts (D6, found by the scratch probe, not encoded); crash points of leader-side dispatchLogs (its single StoreLogs is covered by vh_dispatch with a failing write)"
CHECKS["C06"]["harnesses"] += [H_CRASH_VOTE, H_CRASH_AE_THOROUGH]
CHECKS["C06"]["assumptions"] = CHECKS["C06"]["assumptions"] + [CRASH_NOTE]
CHECKS["C06"]["explanation"] += " CRASH-SEQ: requestVote x crash at every stable-store write x real NewRaft x a second requestVote: a vote granted or on record before the crash still binds the server; the term a reply was sent under is durable."
CHECKS["C01"]["harnesses"] += [H_CRASH_VOTE]
CHECKS["C01"]["assumptions"] = CHECKS["C01"]["assumptions"] + [CRASH_NOTE]
CHECKS["C03"]["harnesses"] += [H_CRASH_AE_THOROUGH]
CHECKS["C04"]["harnesses"] += [H_CRASH_AE_THOROUGH]
CHECKS["C02"]["harnesses"] += [H_CRASH_AE_THOROUGH, H_PLFAULT]
CHECKS["C08"]["harnesses"] += [H_PLFAULT, H_APPLY_RACE]
CHECKS["C08"]["assumptions"] = CHECKS["C08"]["assumptions"] + ["vh_leader_apply_racing_transfer: the leadershipTransferInProgress cell is volatile - each atomic load returns an arbitrary 0/1 (over-approximates every interleaving of the transfer goroutine's stores with the main loop's loads); all other state is single-goroutine"]
CHECKS["C17"]["harnesses"] += [H_APPLY_RACE, H_NOOP_FAULT]
CHECKS["C11"]["harnesses"] += [H_CRASH_INSTALL, H_CRASH_SNAP]
CHECKS["C11"]["assumptions"] = CHECKS["C11"]["assumptions"] + [CRASH_NOTE]
CHECKS["C11"]["explanation"] += " CRASH: installSnapshot and takeSnapshot+compactLogs with a crash before any durable call, then the real NewRaft: never a half-installed snapshot, no compaction before the snapshot is durable, nothing above the recovered snapshot lost."
CHECKS["C20"]["harnesses"] += [H_CRASH_RESTORE]
CHECKS["C20"]["assumptions"] = CHECKS["C20"]["assumptions"] + [CRASH_NOTE]
CHECKS["C13"]["harnesses"] += [H_HB_READDR]
CHECKS["C18"]["harnesses"] += [H_NOOP_FAULT]
H_CRASH_AECFG = {"fn": "vh_crash_ae_config", "what": "appendEntries cutting / replacing a configuration entry x crash point x real NewRaft: the recovered latest configuration is the last configuration entry of the durable log above the snapshot, else the snapshot's",
                 "bounds": "follower log of 2 entries with an uncommitted configuration entry, 1 conflicting request entry (Command or Configuration), <=4 crash points (checked)",
                 "covers": ["crash.aeconfig.before-truncation", "crash.aeconfig.truncated", "crash.aeconfig.new-config-stored"]}
CHECKS["C10"]["harnesses"].append(H_CRASH_AECFG)
CHECKS["C07"]["harnesses"].append(H_CRASH_AECFG)
H_SNAPSESSION = {"fn": "vh_snapshot_session", "what": "two real objects, compacted leader: replicateTo finds no previous entry, sendLatestSnapshot ships the newest snapshot to the follower's real installSnapshot (real FSM goroutine), then AppendEntries from the snapshot boundary until caught up; "
                 "follower FSM = one restore + the leader's committed Command entries above the snapshot, in order", "bounds": "W=3: leader snapshot at base+1 and 1-2 entries above it (Command/Noop), follower entirely below the snapshot (empty log, snapshot at base), MaxAppendEntries in {1,2}, at most 2W+3 AppendEntries (checked), one InstallSnapshot (checked)",
                 "covers": ["snapsession.done", "snapsession.fed-fsm"], "opts": {"max_paths": 200000}}
H_SNAPSESSION_THOROUGH = dict(H_SNAPSESSION, quick={"skip": True})
CHECKS["C12"]["harnesses"].append(H_SNAPSESSION)
CHECKS["C11"]["harnesses"].append(H_SNAPSESSION)
for p in ["C02", "C04", "C05", "C01"]:
    CHECKS[p]["harnesses"].append(H_SNAPSESSION_THOROUGH)
CHECKS["C12"]["explanation"] += " SNAPSHOT SESSION: a compacted leader's replicateTo against a real lagging follower: one InstallSnapshot, then AppendEntries from the snapshot boundary, until caught up."
CHECKS["C12"]["outside"] = "election liveness within a bounded number of timeouts (randomised timers; not decided); sessions are bounded to W=2/3 windows, a freshly elected or compacted leader and one follower"
H_RESTORESESSION = {"fn": "vh_restore_session", "what": "two real objects after a user Restore on the leader (gap-tolerant store): both still hold the old entry, the leader's snapshot sits at the burned index in its current term, its log continues above; "
                    "replicateTo -> sendLatestSnapshot -> the follower's real installSnapshot/runFSM -> AppendEntries from the burned index: the follower's FSM is restored from the user snapshot and nothing from before the restore is applied after it",
                    "bounds": "W=3: old entry base+1 on both, burned index base+2, one entry above it; nextIndex in {base+1, base+2}; follower applied base or base+1; MaxAppendEntries in {1,2}", "covers": ["snapsession.done", "snapsession.fed-fsm"], "opts": {"max_paths": 200000}}
CHECKS["C20"]["harnesses"].append(H_RESTORESESSION)
CHECKS["C12"]["harnesses"].append(dict(H_RESTORESESSION, quick={"skip": True}))
CHECKS["C20"]["explanation"] += " FOLLOWER SESSION: after the restore the leader's real replication code brings a real follower (still holding the old entries) to the restored state through InstallSnapshot at the burned index followed by AppendEntries."
CHECKS["C20"]["outside"] = "concurrent Apply goroutines beyond the in-flight list; followers holding stale entries at or above the burned index (known finding D3); monotonic stores in the follower session; the trailing no-op of Raft.Restore is represented by the entry above the burned index"
