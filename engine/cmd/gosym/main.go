// gosym: symbolic execution of go/ssa with an SMT solver deciding every
// assertion. See /verif/DESIGN.md.
package main

import (
	"encoding/json"
	"flag"
	"fmt"
	"os"
	"path/filepath"
	"sort"
	"strings"
	"time"

	"golang.org/x/tools/go/packages"
	"golang.org/x/tools/go/ssa"
	"golang.org/x/tools/go/ssa/ssautil"

	"gosym/sym"
)

type Output struct {
	Repo       string               `json:"repo"`
	LoadSecs   float64              `json:"load_seconds"`
	Results    []*sym.HarnessResult `json:"results"`
	Interned   map[uint32]string    `json:"interned_strings,omitempty"`
	LoadError  string               `json:"load_error,omitempty"`
	SourceHash map[string]string    `json:"source_hash,omitempty"`
}

func main() {
	repo := flag.String("repo", "/repo", "repository under test")
	hdir := flag.String("harness-dir", "/verif/harness", "directory with harness files to overlay into the package")
	run := flag.String("run", "", "comma-separated harness function names")
	only := flag.String("only", "", "comma-separated assertion-id prefixes to evaluate")
	out := flag.String("out", "", "output JSON file")
	workers := flag.Int("workers", 16, "parallel workers")
	timeout := flag.Int("timeout-ms", 60000, "solver timeout per query")
	unwind := flag.Int("unwind", 16, "unwinding bound per symbolic branch per frame")
	maxPaths := flag.Int("max-paths", 200000, "path budget per harness")
	dump := flag.String("dump", "", "dump final queries here")
	dumpMax := flag.Int("dump-max", 20, "max dumped queries per harness")
	concrete := flag.Int("concrete", 0, "concrete mode: number of seeded input vectors (translator validation)")
	seed := flag.Int64("seed", 1, "seed")
	verbose := flag.Bool("v", false, "verbose")
	tags := flag.String("tags", "verif", "build tags")
	tier := flag.Int("tier", 0, "0 quick, 1 thorough (read by harnesses through vTier())")
	specFile := flag.String("spec", "", "JSON file: list of {harness, only, unwind, max_paths, timeout_ms, tier, concrete}")
	dumpSSA := flag.String("dump-ssa", "", "print the SSA of these functions/methods (comma-separated, e.g. mLogStore.GetLog) and exit")
	progress := flag.Bool("progress", false, "print progress to stderr every 10 s")
	maxSeconds := flag.Int("max-seconds", 0, "wall-clock budget per harness (exceeding it = path limit = inconclusive)")
	stopFirst := flag.Bool("stop-at-first", false, "stop at first violation")
	flag.Parse()

	t0 := time.Now()
	overlay := map[string][]byte{}
	files, _ := filepath.Glob(filepath.Join(*hdir, "*.go"))
	for _, f := range files {
		b, err := os.ReadFile(f)
		if err != nil {
			fatal(err)
		}
		overlay[filepath.Join(*repo, "zz_verif_"+filepath.Base(f))] = b
	}
	cfg := &packages.Config{
		Mode:       packages.LoadAllSyntax,
		Dir:        *repo,
		Overlay:    overlay,
		BuildFlags: []string{"-tags=" + *tags},
		Env:        append(os.Environ(), "GOFLAGS=-mod=mod", "GOPROXY=off"),
	}
	pkgs, err := packages.Load(cfg, ".")
	if err != nil {
		fatal(err)
	}
	o := &Output{Repo: *repo}
	var errs []string
	packages.Visit(pkgs, nil, func(p *packages.Package) {
		for _, e := range p.Errors {
			errs = append(errs, e.Error())
		}
	})
	if len(errs) > 0 {
		o.LoadError = strings.Join(errs, "\n")
		write(o, *out)
		fmt.Fprintln(os.Stderr, "LOAD-ERROR:", o.LoadError)
		os.Exit(3)
	}
	prog, spkgs := ssautil.AllPackages(pkgs, ssa.InstantiateGenerics)
	prog.Build()
	pkg := spkgs[0]
	o.LoadSecs = time.Since(t0).Seconds()

	if *dumpSSA != "" {
		for _, n := range strings.Split(*dumpSSA, ",") {
			for fn := range ssautil.AllFunctions(prog) {
				if fn.Pkg == pkg && (fn.Name() == n || strings.HasSuffix(fn.String(), "."+n) || strings.HasSuffix(fn.String(), ")."+n)) {
					fn.WriteTo(os.Stdout)
				}
			}
		}
		return
	}
	type specT struct {
		Harness   string   `json:"harness"`
		Only      []string `json:"only"`
		Unwind    int      `json:"unwind"`
		MaxPaths  int      `json:"max_paths"`
		TimeoutMs int      `json:"timeout_ms"`
		Tier      int      `json:"tier"`
		Concrete  int      `json:"concrete"`
		DumpMax   int      `json:"dump_max"`
		MaxSteps  int      `json:"max_steps"`
		MaxSeconds int     `json:"max_seconds"`
		Witnesses  int     `json:"witnesses"`
	}
	var specs []specT
	if *specFile != "" {
		b, err := os.ReadFile(*specFile)
		if err != nil {
			fatal(err)
		}
		if err := json.Unmarshal(b, &specs); err != nil {
			fatal(err)
		}
	} else {
		names := strings.Split(*run, ",")
		if *run == "" {
			names = nil
			for n := range pkg.Members {
				if strings.HasPrefix(n, "vh_") {
					names = append(names, n)
				}
			}
			sort.Strings(names)
		}
		var onlyL []string
		if *only != "" {
			onlyL = strings.Split(*only, ",")
		}
		for _, h := range names {
			specs = append(specs, specT{Harness: h, Only: onlyL, Unwind: *unwind, MaxPaths: *maxPaths, TimeoutMs: *timeout, Tier: *tier, Concrete: *concrete, DumpMax: *dumpMax})
		}
	}
	for _, sp := range specs {
		h := sp.Harness
		opt := sym.Options{Harness: h, Only: sp.Only, Unwind: sp.Unwind, MaxPaths: sp.MaxPaths, TimeoutMs: sp.TimeoutMs, MaxSteps: sp.MaxSteps,
			Workers: *workers, Seed: *seed, DumpDir: *dump, DumpMax: sp.DumpMax, Verbose: *verbose, StopAtFirst: *stopFirst, Tier: sp.Tier, Progress: *progress, MaxSeconds: sp.MaxSeconds, Witnesses: sp.Witnesses}
		if opt.MaxSeconds == 0 {
			opt.MaxSeconds = *maxSeconds
		}
		if sp.Concrete > 0 {
			agg := &sym.HarnessResult{Harness: h, Statuses: map[string]int{}, Asserts: map[string]*sym.AssertStat{}, Covers: map[string]int{}}
			for i := 0; i < sp.Concrete; i++ {
				opt.Concrete = true
				opt.Seed = *seed*1000 + int64(i)
				e := sym.NewEngine(prog, pkg, opt)
				r, err := e.Run()
				if err != nil {
					fatal(err)
				}
				agg.Paths += r.Paths
				for k, v := range r.Statuses {
					agg.Statuses[k] += v
				}
				if agg.StatusMsgs == nil {
					agg.StatusMsgs = map[string]string{}
				}
				for k, v := range r.StatusMsgs {
					agg.StatusMsgs[k] = v
				}
				for k, v := range r.Asserts {
					a := agg.Asserts[k]
					if a == nil {
						a = &sym.AssertStat{}
						agg.Asserts[k] = a
					}
					a.Trivial += v.Trivial
					a.ConcreteFail += v.ConcreteFail
				}
				agg.ConcreteObs = append(agg.ConcreteObs, fmt.Sprintf("seed=%d status=%v obs=%v", opt.Seed, r.Statuses, r.ConcreteObs))
			}
			o.Results = append(o.Results, agg)
			continue
		}
		e := sym.NewEngine(prog, pkg, opt)
		r, err := e.Run()
		if err != nil {
			fatal(err)
		}
		o.Results = append(o.Results, r)
		if *verbose || *out == "" {
			summarize(r)
		}
	}
	o.Interned = sym.InternTable()
	write(o, *out)
}

func summarize(r *sym.HarnessResult) {
	fmt.Printf("== %s: paths=%d statuses=%v queries=%d solver=%.1fs wall=%.1fs inconclusive=%v\n", r.Harness, r.Paths, r.Statuses, r.Queries, r.SolverSecs, r.WallSecs, r.Inconclusive)
	for k, v := range r.StatusMsgs {
		if k != "OK" && k != "ASSUMED-AWAY" {
			fmt.Printf("   %s: %s\n", k, trunc(v, 1500))
		}
	}
	var ids []string
	for id := range r.Asserts {
		ids = append(ids, id)
	}
	sort.Strings(ids)
	for _, id := range ids {
		a := r.Asserts[id]
		fmt.Printf("   assert %-40s checked=%d unsat=%d sat=%d unknown=%d trivial=%d skipped=%d %.2fs\n", id, a.Checked, a.Unsat, a.Sat, a.Unknown, a.Trivial, a.Skipped, a.Seconds)
	}
	var cs []string
	for c, n := range r.Covers {
		cs = append(cs, fmt.Sprintf("%s=%d", c, n))
	}
	sort.Strings(cs)
	fmt.Printf("   covers: %s\n", strings.Join(cs, " "))
	for i, v := range r.Violations {
		if i >= 4 {
			break
		}
		fmt.Printf("   VIOL %s where=%s notes=%v\n", v.AssertID, v.Where, v.Notes)
		for _, in := range v.Inputs {
			fmt.Printf("        %s (%s) = %d %s\n", in.Name, in.Kind, in.Val, in.Text)
		}
	}
}

func trunc(s string, n int) string {
	if len(s) > n {
		return s[:n] + "..."
	}
	return s
}

func write(o *Output, path string) {
	if path == "" {
		return
	}
	b, _ := json.MarshalIndent(o, "", " ")
	if err := os.WriteFile(path, b, 0o644); err != nil {
		fatal(err)
	}
}

func fatal(err error) {
	fmt.Fprintln(os.Stderr, "gosym:", err)
	os.Exit(2)
}
