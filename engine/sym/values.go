package sym

import (
	"fmt"
	"go/types"
	"sync"

	"golang.org/x/tools/go/ssa"
)

// Value is a run-time value of the symbolic interpreter:
//
//	*Term      integers (bit-vectors) and booleans
//	StrV       strings (abstract id)
//	*Blob      []byte (abstract content id + nil flag + optional payload)
//	*Value     pointers (Go pointer to the slot); typed nil for nil pointers
//	Struct     struct values (copied on load/store)
//	Array      array values
//	SliceV     slices other than []byte
//	*MapV      maps
//	Iface      interface values
//	*Closure, *ssa.Function, *ssa.Builtin  function values
//	*Chan      channels
//	Tuple      multiple results
//	Opaque     floats / complex (never inspected)
type Value interface{}

type StrV struct{ ID *Term } // ID: BV32

type Blob struct {
	Nil     *Term // Bool
	ID      *Term // BV32 content id (0 = empty)
	Payload Value // structured payload for encoded configurations etc. (may be nil)
}

type Struct []Value
type Array []Value
type SliceV []Value
type Tuple []Value
type Opaque struct{}

type MapV struct {
	Keys []Value
	Vals []Value
}

type Iface struct {
	T types.Type // dynamic type; nil for a nil interface
	V Value
}

type Closure struct {
	Fn  *ssa.Function
	Env []Value
}

// Bound method closure created by intrinsics (method value on interface).
type BoundMethod struct {
	Recv Iface
	Name string
	Pkg  *types.Package
}

type Chan struct {
	Cap    int
	Buf    []Value
	Closed bool
	Label  string
	Elem   types.Type
	id     int
}

// ---- string interning (global, stable across paths and workers) ----

var (
	internMu   sync.Mutex
	internByS  = map[string]uint32{"": 0}
	internByID = map[uint32]string{0: ""}
	internNext = uint32(1)
)

func internString(s string) uint32 {
	internMu.Lock()
	defer internMu.Unlock()
	if id, ok := internByS[s]; ok {
		return id
	}
	id := internNext
	internNext++
	internByS[s] = id
	internByID[id] = s
	return id
}

func lookupInterned(id uint32) (string, bool) {
	internMu.Lock()
	defer internMu.Unlock()
	s, ok := internByID[id]
	return s, ok
}

// InternTable returns a copy of id → text (for replay files).
func InternTable() map[uint32]string {
	internMu.Lock()
	defer internMu.Unlock()
	m := make(map[uint32]string, len(internByID))
	for k, v := range internByID {
		m[k] = v
	}
	return m
}

// ---- helpers ----

func copyVal(v Value) Value {
	switch x := v.(type) {
	case Struct:
		n := make(Struct, len(x))
		for i, f := range x {
			n[i] = copyVal(f)
		}
		return n
	case Array:
		n := make(Array, len(x))
		for i, f := range x {
			n[i] = copyVal(f)
		}
		return n
	}
	return v
}

func intWidth(b *types.Basic) int {
	switch b.Kind() {
	case types.Int8, types.Uint8:
		return 8
	case types.Int16, types.Uint16:
		return 16
	case types.Int32, types.Uint32:
		return 32
	case types.Int, types.Uint, types.Int64, types.Uint64, types.Uintptr, types.UntypedInt, types.UntypedRune:
		return 64
	}
	return 0
}

func isUnsigned(t types.Type) bool {
	if b, ok := t.Underlying().(*types.Basic); ok {
		return b.Info()&types.IsUnsigned != 0
	}
	return false
}

func isByteSlice(t types.Type) bool {
	if s, ok := t.Underlying().(*types.Slice); ok {
		if b, ok := s.Elem().Underlying().(*types.Basic); ok {
			return b.Kind() == types.Uint8
		}
	}
	return false
}

func (p *Path) zero(t types.Type) Value {
	switch u := t.Underlying().(type) {
	case *types.Basic:
		switch {
		case u.Info()&types.IsBoolean != 0:
			return p.ctx.False
		case u.Info()&types.IsInteger != 0:
			return p.ctx.Const(intWidth(u), 0)
		case u.Info()&types.IsString != 0:
			return StrV{p.ctx.Const(32, 0)}
		case u.Kind() == types.UnsafePointer:
			return (*Value)(nil)
		case u.Kind() == types.UntypedNil:
			return nil
		default:
			return Opaque{}
		}
	case *types.Pointer:
		return (*Value)(nil)
	case *types.Struct:
		s := make(Struct, u.NumFields())
		for i := range s {
			s[i] = p.zero(u.Field(i).Type())
		}
		return s
	case *types.Array:
		a := make(Array, u.Len())
		for i := range a {
			a[i] = p.zero(u.Elem())
		}
		return a
	case *types.Slice:
		if isByteSlice(t) {
			return &Blob{Nil: p.ctx.True, ID: p.ctx.Const(32, 0)}
		}
		return SliceV(nil)
	case *types.Map:
		return (*MapV)(nil)
	case *types.Chan:
		return (*Chan)(nil)
	case *types.Interface:
		return Iface{}
	case *types.Signature:
		return (*Closure)(nil)
	case *types.Tuple:
		tu := make(Tuple, u.Len())
		for i := range tu {
			tu[i] = p.zero(u.At(i).Type())
		}
		return tu
	case *types.TypeParam:
		panic("zero of type parameter")
	}
	panic(fmt.Sprintf("zero: unhandled type %T %s", t.Underlying(), t))
}

func (p *Path) strConst(s string) StrV {
	id := internString(s)
	return StrV{p.ctx.Const(32, uint64(id))}
}

// constStr returns the Go text of a string value when it is a known constant.
func (p *Path) strText(s StrV) (string, bool) {
	if s.ID.IsConst() {
		return lookupInterned(uint32(s.ID.C))
	}
	return "", false
}

// strLen returns len(s) as a 64-bit term.
func (p *Path) strLen(s StrV) *Term {
	if txt, ok := p.strText(s); ok {
		return p.ctx.Const(64, uint64(len(txt)))
	}
	return p.ctx.ZExt(p.ctx.UF("slen", 32, s.ID), 64)
}

// freshStr creates a fresh symbolic string id with its axioms.
func (p *Path) freshStr(name string) StrV {
	v := p.freshVar(name, 32)
	// slen(id)=0 <=> id=0
	l := p.ctx.UF("slen", 32, v)
	z := p.ctx.Const(32, 0)
	p.assume(p.ctx.Eq(p.ctx.Eq(l, z), p.ctx.Eq(v, z)))
	p.assume(p.ctx.Cmp(OpUlt, l, p.ctx.Const(32, 1<<20)))
	return StrV{v}
}

// noteConstStr asserts the length axiom for an interned constant (once per path).
func (p *Path) noteConstStr(id uint32) {
	if p.constAx[id] {
		return
	}
	p.constAx[id] = true
	txt, _ := lookupInterned(id)
	p.assume(p.ctx.Eq(p.ctx.UF("slen", 32, p.ctx.Const(32, uint64(id))), p.ctx.Const(32, uint64(len(txt)))))
}
