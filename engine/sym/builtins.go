package sym

import (
	"fmt"
	"go/types"

	"golang.org/x/tools/go/ssa"
)

// ---- maps ----

// mapFind returns the index of key in m or -1, forking on symbolic equality.
func (p *Path) mapFind(m *MapV, key Value) int {
	if m == nil || len(m.Keys) == 0 {
		return -1
	}
	n := len(m.Keys)
	conds := make([]*Term, n+1)
	none := p.ctx.True
	for i, k := range m.Keys {
		conds[i] = p.equalTerm(key, k)
		if conds[i].IsTrue() {
			return i
		}
		none = p.ctx.And(none, p.ctx.Not(conds[i]))
	}
	conds[n] = none
	k := p.decide(conds, "mapkey")
	if k == n {
		return -1
	}
	return k
}

func (p *Path) mapUpdate(m *MapV, key, val Value) {
	if i := p.mapFind(m, key); i >= 0 {
		m.Vals[i] = val
		return
	}
	m.Keys = append(m.Keys, key)
	m.Vals = append(m.Vals, val)
}

func (p *Path) mapDelete(m *MapV, key Value) {
	if m == nil {
		return
	}
	if i := p.mapFind(m, key); i >= 0 {
		m.Keys = append(append([]Value{}, m.Keys[:i]...), m.Keys[i+1:]...)
		m.Vals = append(append([]Value{}, m.Vals[:i]...), m.Vals[i+1:]...)
	}
}

func (fr *frame) lookup(in *ssa.Lookup) Value {
	p := fr.p
	x := fr.get(in.X)
	switch m := x.(type) {
	case *MapV:
		vt := in.X.Type().Underlying().(*types.Map).Elem()
		i := p.mapFind(m, fr.get(in.Index))
		var v Value
		if i >= 0 {
			v = copyVal(m.Vals[i])
		} else {
			v = p.zero(vt)
		}
		if in.CommaOk {
			return Tuple{v, p.ctx.Bool(i >= 0)}
		}
		return v
	case StrV:
		p.unsupported("string index")
	}
	p.unsupported("lookup on %T", x)
	return nil
}

type iter struct {
	m     *MapV
	keys  []Value
	pos   int
}

func perms(n int) [][]int {
	if n == 0 {
		return [][]int{{}}
	}
	var res [][]int
	for _, pr := range perms(n - 1) {
		for i := 0; i <= len(pr); i++ {
			q := append(append(append([]int{}, pr[:i]...), n-1), pr[i:]...)
			res = append(res, q)
		}
	}
	return res
}

func (p *Path) rangeIter(x Value, t types.Type) Value {
	switch m := x.(type) {
	case *MapV:
		it := &iter{m: m}
		if m == nil {
			return it
		}
		n := len(m.Keys)
		order := make([]int, n)
		for i := range order {
			order[i] = i
		}
		if p.mapPerm && n > 1 {
			if n <= 3 {
				ps := perms(n)
				order = ps[p.chooseConst(len(ps), "maporder")]
			} else {
				// rotations and their reversals
				k := p.chooseConst(2*n, "maporder")
				rot := k % n
				for i := range order {
					order[i] = (i + rot) % n
				}
				if k >= n {
					for i, j := 0, n-1; i < j; i, j = i+1, j-1 {
						order[i], order[j] = order[j], order[i]
					}
				}
			}
		}
		for _, i := range order {
			it.keys = append(it.keys, m.Keys[i])
		}
		return it
	case StrV:
		p.unsupported("range over string")
	}
	p.unsupported("range over %T", x)
	return nil
}

func (it *iter) next(p *Path, in *ssa.Next) Value {
	tt := in.Type().(*types.Tuple)
	for it.pos < len(it.keys) {
		k := it.keys[it.pos]
		it.pos++
		// still present? (identity on the stored key value)
		for i, mk := range it.m.Keys {
			if p.equalTerm(k, mk).IsTrue() {
				return Tuple{p.ctx.True, k, copyVal(it.m.Vals[i])}
			}
		}
	}
	var kz, vz Value
	if _, ok := tt.At(1).Type().(*types.Basic); ok && tt.At(1).Type().(*types.Basic).Kind() == types.Invalid {
		kz = nil
	} else {
		kz = p.zeroOrNil(tt.At(1).Type())
	}
	vz = p.zeroOrNil(tt.At(2).Type())
	return Tuple{p.ctx.False, kz, vz}
}

func (p *Path) zeroOrNil(t types.Type) Value {
	if b, ok := t.(*types.Basic); ok && b.Kind() == types.Invalid {
		return nil
	}
	return p.zero(t)
}

// ---- builtins ----

func (p *Path) lenOf(v Value) *Term {
	c := p.ctx
	switch x := v.(type) {
	case StrV:
		return p.strLen(x)
	case *Blob:
		return p.strLen(StrV{x.ID})
	case SliceV:
		return c.Const(64, uint64(len(x)))
	case Array:
		return c.Const(64, uint64(len(x)))
	case *MapV:
		if x == nil {
			return c.Const(64, 0)
		}
		return c.Const(64, uint64(len(x.Keys)))
	case *Chan:
		if x == nil {
			return c.Const(64, 0)
		}
		return c.Const(64, uint64(len(x.Buf)))
	case *Value:
		if x != nil {
			if a, ok := (*x).(Array); ok {
				return c.Const(64, uint64(len(a)))
			}
		}
	}
	p.unsupported("len of %T", v)
	return nil
}

func (p *Path) callBuiltin(caller *frame, fn *ssa.Builtin, args []Value) Value {
	c := p.ctx
	switch fn.Name() {
	case "len":
		return p.lenOf(args[0])
	case "cap":
		switch x := args[0].(type) {
		case SliceV:
			return c.Const(64, uint64(cap(x)))
		case *Chan:
			if x == nil {
				return c.Const(64, 0)
			}
			return c.Const(64, uint64(x.Cap))
		case *Blob:
			return p.lenOf(x)
		}
		return p.lenOf(args[0])
	case "append":
		switch s := args[0].(type) {
		case SliceV:
			t, ok := args[1].(SliceV)
			if !ok {
				p.unsupported("append %T to slice", args[1])
			}
			if len(t) == 0 {
				return s
			}
			// Go semantics: in place when capacity suffices
			if len(s)+len(t) <= cap(s) {
				r := s[:len(s)+len(t)]
				for i, v := range t {
					r[len(s)+i] = copyVal(v)
				}
				return r
			}
			newCap := 2 * cap(s)
			if newCap < len(s)+len(t) {
				newCap = len(s) + len(t)
			}
			r := make(SliceV, len(s), newCap)
			copy(r, s)
			for _, v := range t {
				r = append(r, copyVal(v))
			}
			return r
		case *Blob:
			switch t := args[1].(type) {
			case *Blob:
				if s.ID.IsConst() && s.ID.C == 0 {
					// append(empty/nil, b...) is a copy of b; nil only if both nil-ish
					if t.ID.IsConst() && t.ID.C == 0 {
						return &Blob{Nil: s.Nil, ID: s.ID}
					}
					return &Blob{Nil: c.And(s.Nil, c.Eq(t.ID, c.Const(32, 0))), ID: t.ID, Payload: t.Payload}
				}
			}
			p.unsupported("append on blob")
		}
		p.unsupported("append to %T", args[0])
	case "copy":
		dst, ok1 := args[0].(SliceV)
		src, ok2 := args[1].(SliceV)
		if !ok1 || !ok2 {
			p.unsupported("copy %T <- %T", args[0], args[1])
		}
		n := len(dst)
		if len(src) < n {
			n = len(src)
		}
		tmp := make([]Value, n)
		for i := 0; i < n; i++ {
			tmp[i] = copyVal(src[i])
		}
		copy(dst, tmp)
		return c.Const(64, uint64(n))
	case "delete":
		p.mapDelete(args[0].(*MapV), args[1])
		return nil
	case "close":
		p.closeChan(args[0].(*Chan))
		return nil
	case "print", "println":
		return nil
	case "recover":
		if caller != nil && caller.caller != nil && caller.caller.panicking {
			caller.caller.panicking = false
			v := caller.caller.panicVal.v
			if _, ok := v.(Iface); !ok {
				return Iface{}
			}
			return v
		}
		return Iface{}
	case "min", "max":
		r := args[0]
		for _, a := range args[1:] {
			x, y := r.(*Term), a.(*Term)
			var lt *Term
			if caller != nil && isUnsignedVal(fn, caller) {
				lt = c.Cmp(OpUlt, y, x)
			} else {
				lt = c.Cmp(OpSlt, y, x)
			}
			if fn.Name() == "min" {
				r = c.Ite(lt, y, x)
			} else {
				r = c.Ite(lt, x, y)
			}
		}
		return r
	case "ssa:wrapnilchk":
		if ptr, ok := args[0].(*Value); ok && ptr == nil {
			panic(goPanic{p.mkRuntimeError("value method called through nil pointer")})
		}
		return args[0]
	case "clear":
		if m, ok := args[0].(*MapV); ok && m != nil {
			m.Keys, m.Vals = nil, nil
		}
		return nil
	}
	p.unsupported("builtin %s", fn.Name())
	return nil
}

// isUnsignedVal reports whether the builtin call's result type is unsigned.
func isUnsignedVal(fn *ssa.Builtin, caller *frame) bool {
	if sig, ok := fn.Type().(*types.Signature); ok && sig.Results().Len() == 1 {
		return isUnsigned(sig.Results().At(0).Type())
	}
	return false
}

func (p *Path) violationNow(id, note string) {
	p.ensureFeasible()
	a := p.stat(id)
	if !p.eng.selected(id) {
		a.Skipped++
		return
	}
	a.Checked++
	a.Sat++
	v := Violation{AssertID: id, Harness: p.eng.Opt.Harness, Where: note, Notes: append([]string{note}, p.notes...)}
	if !p.eng.Opt.Concrete {
		switch p.check(p.ctx.True) {
		case Sat:
			p.fillModel(&v)
		case Unsat:
			// the path condition is unsatisfiable: not a reachable event
			a.Checked--
			a.Sat--
			p.end("ASSUMED-AWAY", "")
		default:
			v.Notes = append(v.Notes, "path condition satisfiability unknown")
		}
	}
	v.Trace = append([]int{}, p.trace...)
	p.violations = append(p.violations, v)
}

var _ = fmt.Sprintf
