package sym

import (
	"fmt"
	"go/constant"
	"go/token"
	"go/types"
	"strings"

	"golang.org/x/tools/go/ssa"
)

type goPanic struct{ v Value }

type deferred struct {
	fn   Value
	args []Value
	// invoke
	invoke *ssa.CallCommon
	recv   Value
	instr  *ssa.Defer
}

type frame struct {
	p        *Path
	fn       *ssa.Function
	env      map[ssa.Value]Value
	block    *ssa.BasicBlock
	prev     *ssa.BasicBlock
	defers   []deferred
	result   Value
	caller   *frame
	panicking bool
	panicVal  goPanic
	branchN  map[ssa.Instruction]int
}

func (p *Path) runInit() {
	// run only the package's own init (dependency inits are skipped: their
	// globals are reached only inside stubbed functions)
	initFn := p.eng.Pkg.Func("init")
	if initFn != nil {
		p.inInit = true
		p.call(nil, initFn, nil)
		p.inInit = false
	}
}

func (p *Path) global(g *ssa.Global) *Value {
	if s, ok := p.globals[g]; ok {
		return s
	}
	slot := new(Value)
	*slot = p.zero(g.Type().(*types.Pointer).Elem())
	p.globals[g] = slot
	return slot
}

func (fr *frame) get(v ssa.Value) Value {
	switch x := v.(type) {
	case *ssa.Const:
		return fr.p.constValue(x)
	case *ssa.Global:
		return fr.p.global(x)
	case *ssa.Function:
		return x
	case *ssa.Builtin:
		return x
	}
	if r, ok := fr.env[v]; ok {
		return r
	}
	panic(fmt.Sprintf("get: no value for %T %s in %s", v, v.Name(), fr.fn))
}

func (p *Path) constValue(c *ssa.Const) Value {
	t := c.Type()
	if c.Value == nil {
		return p.zero(t)
	}
	if tp, ok := t.(*types.TypeParam); ok {
		_ = tp
		p.unsupported("const of type param")
	}
	switch u := t.Underlying().(type) {
	case *types.Basic:
		switch {
		case u.Info()&types.IsBoolean != 0:
			return p.ctx.Bool(constant.BoolVal(c.Value))
		case u.Info()&types.IsInteger != 0:
			w := intWidth(u)
			if u.Info()&types.IsUnsigned != 0 {
				v, _ := constant.Uint64Val(constant.ToInt(c.Value))
				return p.ctx.Const(w, v)
			}
			v, _ := constant.Int64Val(constant.ToInt(c.Value))
			return p.ctx.Const(w, uint64(v))
		case u.Info()&types.IsString != 0:
			s := constant.StringVal(c.Value)
			sv := p.strConst(s)
			return sv
		default:
			return Opaque{}
		}
	}
	p.unsupported("const of type %s", t)
	return nil
}

// call invokes fn with args (receiver first for methods).
func (p *Path) call(caller *frame, fnv Value, args []Value) Value {
	switch fn := fnv.(type) {
	case *ssa.Function:
		if fn == nil {
			panic(goPanic{p.mkRuntimeError("call of nil function")})
		}
		return p.callSSA(caller, fn, args, nil)
	case *Closure:
		if fn == nil {
			panic(goPanic{p.mkRuntimeError("call of nil func value")})
		}
		return p.callSSA(caller, fn.Fn, args, fn.Env)
	case *ssa.Builtin:
		return p.callBuiltin(caller, fn, args)
	case *BoundMethod:
		return p.invoke(caller, fn.Recv, fn.Name, fn.Pkg, args, nil)
	case func(*Path, []Value) Value:
		return fn(p, args)
	}
	panic(fmt.Sprintf("call of %T", fnv))
}

func (p *Path) callSSA(caller *frame, fn *ssa.Function, args []Value, env []Value) Value {
	name := fn.String()
	if in, ok := intrinsics[name]; ok {
		p.stubs[name]++
		return in(p, caller, fn, args)
	}
	if p.inInit && fn.Pkg != nil && fn.Pkg != p.eng.Pkg && fn.Name() == "init" {
		return nil // dependency init: skipped
	}
	if fn.Pkg != nil && fn.Pkg != p.eng.Pkg {
		pp := fn.Pkg.Pkg.Path()
		if caller != nil {
			p.callerName = caller.fn.String()
		} else {
			p.callerName = ""
		}
		if r, ok := p.stubByPackage(pp, fn, args); ok {
			p.stubs[pp+".*"]++
			return r
		}
	}
	if fn.Blocks == nil {
		p.unsupported("function without body: %s", name)
	}
	depth := 0
	if caller != nil {
		depth = callerDepth(caller)
	}
	if depth > 200 {
		p.end("UNWIND", "recursion depth exceeded in "+name)
	}
	if _, ok := p.funcs[name]; !ok {
		n := 0
		for _, b := range fn.Blocks {
			n += len(b.Instrs)
		}
		p.funcs[name] = n
	}
	fr := &frame{p: p, fn: fn, env: make(map[ssa.Value]Value, 16), caller: caller}
	for i, prm := range fn.Params {
		fr.env[prm] = args[i]
	}
	for i, fv := range fn.FreeVars {
		fr.env[fv] = env[i]
	}
	fr.block = fn.Blocks[0]
	fr.run()
	return fr.result
}

func callerDepth(fr *frame) int {
	d := 0
	for f := fr; f != nil; f = f.caller {
		d++
	}
	return d
}

// run executes the frame's blocks, with Go panic/defer semantics.
func (fr *frame) run() {
	defer func() {
		if fr.block == nil {
			return // normal return
		}
		r := recover()
		if r == nil {
			return
		}
		gp, ok := r.(goPanic)
		if !ok {
			panic(r) // pathEnd, killed, engine errors
		}
		fr.panicking = true
		fr.panicVal = gp
		fr.runDefers()
		if fr.panicking {
			panic(fr.panicVal)
		}
		// recovered: return via the Recover block
		if fr.fn.Recover != nil {
			fr.block = fr.fn.Recover
			fr.prev = nil
			fr.run()
		} else {
			fr.result = fr.p.zeroResult(fr.fn)
		}
	}()
	for {
		for _, instr := range fr.block.Instrs {
			if !fr.visit(instr) {
				continue
			}
			break
		}
		if fr.block == nil {
			return
		}
	}
}

func (p *Path) zeroResult(fn *ssa.Function) Value {
	res := fn.Signature.Results()
	switch res.Len() {
	case 0:
		return nil
	case 1:
		return p.zero(res.At(0).Type())
	}
	return p.zero(res)
}

func (fr *frame) runDefers() {
	for len(fr.defers) > 0 {
		d := fr.defers[len(fr.defers)-1]
		fr.defers = fr.defers[:len(fr.defers)-1]
		fr.runDefer(d)
	}
}

func (fr *frame) runDefer(d deferred) {
	p := fr.p
	var ok bool
	defer func() {
		if !ok {
			r := recover()
			if gp, isGo := r.(goPanic); isGo {
				// a panic in a deferred call replaces the current one
				fr.panicking = true
				fr.panicVal = gp
				return
			}
			panic(r)
		}
	}()
	if d.invoke != nil {
		p.invoke(fr, d.recv.(Iface), d.invoke.Method.Name(), d.invoke.Method.Pkg(), d.args, d.invoke)
	} else {
		p.call(fr, d.fn, d.args)
	}
	ok = true
}

// visit executes one instruction; returns true when control transfers
// (jump/if/return/panic) and the instruction loop must restart.
func (fr *frame) visit(instr ssa.Instruction) bool {
	p := fr.p
	p.steps++
	if p.steps > p.eng.Opt.MaxSteps {
		p.end("STEP-LIMIT", fmt.Sprintf("in %s", fr.fn))
	}
	switch in := instr.(type) {
	case *ssa.DebugRef:
	case *ssa.UnOp:
		fr.env[in] = fr.unop(in)
	case *ssa.BinOp:
		fr.env[in] = p.binop(in.Op, in.X.Type(), fr.get(in.X), fr.get(in.Y), in)
	case *ssa.Call:
		fr.env[in] = fr.doCall(&in.Call)
	case *ssa.ChangeInterface:
		fr.env[in] = fr.get(in.X)
	case *ssa.ChangeType:
		fr.env[in] = fr.get(in.X)
	case *ssa.Convert:
		fr.env[in] = p.convert(in.X.Type(), in.Type(), fr.get(in.X))
	case *ssa.MakeInterface:
		fr.env[in] = Iface{T: in.X.Type(), V: fr.get(in.X)}
	case *ssa.Extract:
		fr.env[in] = fr.get(in.Tuple).(Tuple)[in.Index]
	case *ssa.Slice:
		fr.env[in] = fr.slice(in)
	case *ssa.Return:
		switch len(in.Results) {
		case 0:
		case 1:
			fr.result = fr.get(in.Results[0])
		default:
			res := make(Tuple, len(in.Results))
			for i, r := range in.Results {
				res[i] = fr.get(r)
			}
			fr.result = res
		}
		fr.block = nil
		return true
	case *ssa.RunDefers:
		fr.runDefers()
		if fr.panicking {
			panic(fr.panicVal)
		}
	case *ssa.Panic:
		panic(goPanic{fr.get(in.X)})
	case *ssa.Send:
		ch := fr.get(in.Chan).(*Chan)
		if ch == nil {
			p.selectOp([]selCase{{ch: nil, send: true}}, false)
		}
		_, _, ok := p.selectOp([]selCase{{ch: ch, send: true, val: copyVal(fr.get(in.X))}}, false)
		if !ok {
			panic(goPanic{p.mkRuntimeError("send on closed channel")})
		}
	case *ssa.Store:
		ptr := fr.get(in.Addr).(*Value)
		if ptr == nil {
			panic(goPanic{p.mkRuntimeError("nil pointer dereference (store) in " + fr.fn.String())})
		}
		storeInto(ptr, copyVal(fr.get(in.Val)))
	case *ssa.If:
		c := fr.get(in.Cond).(*Term)
		var taken bool
		if c.IsConst() {
			taken = c.C != 0
		} else {
			if fr.branchN == nil {
				fr.branchN = map[ssa.Instruction]int{}
			}
			fr.branchN[in]++
			p.unwindChecks++
			if fr.branchN[in] > p.eng.Opt.Unwind {
				p.end("UNWIND", fmt.Sprintf("unwinding assertion failed at %s in %s", p.eng.Prog.Fset.Position(in.Pos()), fr.fn))
			}
			taken = p.branch(c, "if@"+fr.fn.Name())
		}
		succ := 1
		if taken {
			succ = 0
		}
		fr.prev, fr.block = fr.block, fr.block.Succs[succ]
		return true
	case *ssa.Jump:
		fr.prev, fr.block = fr.block, fr.block.Succs[0]
		return true
	case *ssa.Defer:
		d := deferred{instr: in}
		if in.Call.IsInvoke() {
			d.invoke = &in.Call
			d.recv = fr.get(in.Call.Value)
		} else {
			d.fn = fr.get(in.Call.Value)
		}
		for _, a := range in.Call.Args {
			d.args = append(d.args, copyVal(fr.get(a)))
		}
		fr.defers = append(fr.defers, d)
	case *ssa.Go:
		fr.doGo(in)
	case *ssa.MakeChan:
		sz := fr.get(in.Size).(*Term)
		if !sz.IsConst() {
			p.unsupported("symbolic channel capacity")
		}
		fr.env[in] = p.makeChan(in.Type().Underlying().(*types.Chan).Elem(), int(sz.C), fr.fn.Name())
	case *ssa.Alloc:
		slot := new(Value)
		*slot = p.zero(in.Type().Underlying().(*types.Pointer).Elem())
		fr.env[in] = slot
	case *ssa.MakeSlice:
		n := fr.get(in.Len).(*Term)
		c := fr.get(in.Cap).(*Term)
		if !n.IsConst() || !c.IsConst() {
			p.unsupported("make slice with symbolic len/cap in %s", fr.fn)
		}
		if isByteSlice(in.Type()) {
			if n.C == 0 {
				fr.env[in] = &Blob{Nil: p.ctx.False, ID: p.ctx.Const(32, 0)}
			} else {
				s := p.freshStr("bytes")
				p.assume(p.ctx.Eq(p.strLen(s), p.ctx.Const(64, n.C)))
				fr.env[in] = &Blob{Nil: p.ctx.False, ID: s.ID}
			}
			break
		}
		elem := in.Type().Underlying().(*types.Slice).Elem()
		s := make(SliceV, int(n.C), int(c.C))
		for i := range s {
			s[i] = p.zero(elem)
		}
		fr.env[in] = s
	case *ssa.MakeMap:
		fr.env[in] = &MapV{}
	case *ssa.Range:
		fr.env[in] = p.rangeIter(fr.get(in.X), in.X.Type())
	case *ssa.Next:
		fr.env[in] = fr.get(in.Iter).(*iter).next(p, in)
	case *ssa.FieldAddr:
		ptr := fr.get(in.X).(*Value)
		if ptr == nil {
			panic(goPanic{p.mkRuntimeError(fmt.Sprintf("nil pointer dereference (field %d) in %s at %s", in.Field, fr.fn, p.eng.Prog.Fset.Position(in.Pos())))})
		}
		fr.env[in] = &(*ptr).(Struct)[in.Field]
	case *ssa.Field:
		fr.env[in] = fr.get(in.X).(Struct)[in.Field]
	case *ssa.IndexAddr:
		fr.env[in] = fr.indexAddr(in)
	case *ssa.Index:
		fr.env[in] = fr.index(in)
	case *ssa.Lookup:
		fr.env[in] = fr.lookup(in)
	case *ssa.MapUpdate:
		m := fr.get(in.Map).(*MapV)
		if m == nil {
			panic(goPanic{p.mkRuntimeError("assignment to entry in nil map")})
		}
		p.mapUpdate(m, fr.get(in.Key), copyVal(fr.get(in.Value)))
	case *ssa.TypeAssert:
		fr.env[in] = p.typeAssert(in, fr.get(in.X).(Iface))
	case *ssa.MakeClosure:
		var env []Value
		for _, b := range in.Bindings {
			env = append(env, fr.get(b))
		}
		fr.env[in] = &Closure{Fn: in.Fn.(*ssa.Function), Env: env}
	case *ssa.Phi:
		for i, pred := range in.Block().Preds {
			if pred == fr.prev {
				fr.env[in] = fr.get(in.Edges[i])
				break
			}
		}
	case *ssa.Select:
		fr.env[in] = fr.doSelect(in)
	case *ssa.SliceToArrayPointer, *ssa.MultiConvert:
		p.unsupported("instruction %T", instr)
	default:
		p.unsupported("instruction %T", instr)
	}
	return false
}

// storeInto writes v into the slot, element-wise for aggregates so that
// pointers to fields/elements taken earlier stay valid (Go semantics).
func storeInto(ptr *Value, v Value) {
	switch nv := v.(type) {
	case Struct:
		if old, ok := (*ptr).(Struct); ok && len(old) == len(nv) {
			for i := range nv {
				storeInto(&old[i], nv[i])
			}
			return
		}
	case Array:
		if old, ok := (*ptr).(Array); ok && len(old) == len(nv) {
			for i := range nv {
				storeInto(&old[i], nv[i])
			}
			return
		}
	}
	*ptr = v
}

func (fr *frame) doSelect(in *ssa.Select) Value {
	p := fr.p
	var cases []selCase
	for _, st := range in.States {
		c := selCase{ch: fr.get(st.Chan).(*Chan), send: st.Dir == types.SendOnly}
		if c.send {
			c.val = copyVal(fr.get(st.Send))
		}
		cases = append(cases, c)
	}
	idx, v, ok := p.selectOp(cases, !in.Blocking)
	res := Tuple{p.ctx.Const(64, uint64(int64(idx))), p.ctx.Bool(ok)}
	for i, st := range in.States {
		if st.Dir == types.RecvOnly {
			if i == idx {
				res = append(res, v)
			} else {
				res = append(res, p.zero(st.Chan.Type().Underlying().(*types.Chan).Elem()))
			}
		}
	}
	if idx >= 0 && cases[idx].send && !ok {
		panic(goPanic{p.mkRuntimeError("send on closed channel")})
	}
	return res
}

func (fr *frame) doGo(in *ssa.Go) {
	p := fr.p
	var fnv Value
	var args []Value
	var recv Iface
	isInvoke := in.Call.IsInvoke()
	if isInvoke {
		recv = fr.get(in.Call.Value).(Iface)
	} else {
		fnv = fr.get(in.Call.Value)
	}
	for _, a := range in.Call.Args {
		args = append(args, copyVal(fr.get(a)))
	}
	name := "go@" + fr.fn.Name()
	if f, ok := fnv.(*ssa.Function); ok {
		name = "go:" + f.Name()
	} else if c, ok := fnv.(*Closure); ok {
		name = "go:" + c.Fn.Name()
	}
	body := func() {
		if isInvoke {
			p.invoke(nil, recv, in.Call.Method.Name(), in.Call.Method.Pkg(), args, &in.Call)
		} else {
			p.call(nil, fnv, args)
		}
	}
	g := p.spawn(name, body)
	if !p.spawnRun && !p.goAllowed(name) {
		g.state = gDone // never runs: goroutines of the code under test stay parked
		p.notes = append(p.notes, "not-run:"+name)
		p.pendingGo = append(p.pendingGo, g)
	}
}

func (p *Path) goAllowed(name string) bool {
	if v, ok := p.ghost["__goallow"]; ok {
		for _, s := range v.([]string) {
			if strings.Contains(name, s) {
				return true
			}
		}
	}
	return false
}

func (fr *frame) doCall(cc *ssa.CallCommon) Value {
	p := fr.p
	var args []Value
	if cc.IsInvoke() {
		recv := fr.get(cc.Value).(Iface)
		for _, a := range cc.Args {
			args = append(args, copyVal(fr.get(a)))
		}
		return p.invoke(fr, recv, cc.Method.Name(), cc.Method.Pkg(), args, cc)
	}
	fnv := fr.get(cc.Value)
	for _, a := range cc.Args {
		args = append(args, copyVal(fr.get(a)))
	}
	return p.call(fr, fnv, args)
}

// invoke performs dynamic dispatch of an interface method call.
func (p *Path) invoke(caller *frame, recv Iface, name string, pkg *types.Package, args []Value, cc *ssa.CallCommon) Value {
	if cc != nil {
		if r, ok := p.stubInterface(cc, recv, args); ok {
			return r
		}
	}
	if recv.T == nil {
		panic(goPanic{p.mkRuntimeError("invoke " + name + " on nil interface")})
	}
	if bm, ok := recv.V.(*nativeObj); ok {
		return bm.call(p, name, args)
	}
	ms := p.eng.Prog.MethodSets.MethodSet(recv.T)
	sel := ms.Lookup(pkg, name)
	if sel == nil {
		p.unsupported("method %s not found on %s", name, recv.T)
	}
	fn := p.eng.Prog.MethodValue(sel)
	if fn == nil {
		p.unsupported("no method value for %s.%s", recv.T, name)
	}
	return p.call(caller, fn, append([]Value{recv.V}, args...))
}

func (fr *frame) unop(in *ssa.UnOp) Value {
	p := fr.p
	x := fr.get(in.X)
	switch in.Op {
	case token.MUL: // load
		ptr := x.(*Value)
		if ptr == nil {
			panic(goPanic{p.mkRuntimeError(fmt.Sprintf("nil pointer dereference (load) in %s at %s", fr.fn, p.eng.Prog.Fset.Position(in.Pos())))})
		}
		return copyVal(*ptr)
	case token.NOT:
		return p.ctx.Not(x.(*Term))
	case token.SUB:
		if t, ok := x.(*Term); ok {
			return p.ctx.Neg(t)
		}
		return Opaque{}
	case token.XOR:
		return p.ctx.BNot(x.(*Term))
	case token.ARROW:
		ch := x.(*Chan)
		_, v, ok := p.selectOp([]selCase{{ch: ch}}, false)
		if in.CommaOk {
			return Tuple{v, p.ctx.Bool(ok)}
		}
		return v
	}
	p.unsupported("unop %s", in.Op)
	return nil
}

func (p *Path) binop(op token.Token, xt types.Type, x, y Value, in *ssa.BinOp) Value {
	c := p.ctx
	switch a := x.(type) {
	case *Term:
		b, ok := y.(*Term)
		if !ok {
			p.unsupported("binop %s on term and %T", op, y)
		}
		if a.W == 0 { // bool
			switch op {
			case token.EQL:
				return c.Eq(a, b)
			case token.NEQ:
				return c.Not(c.Eq(a, b))
			case token.AND, token.LAND:
				return c.And(a, b)
			case token.OR, token.LOR:
				return c.Or(a, b)
			}
			p.unsupported("bool binop %s", op)
		}
		uns := isUnsigned(xt)
		switch op {
		case token.ADD:
			return c.Bin(OpAdd, a, b)
		case token.SUB:
			return c.Bin(OpSub, a, b)
		case token.MUL:
			return c.Bin(OpMul, a, b)
		case token.QUO, token.REM:
			if b.IsConst() {
				if b.C == 0 {
					panic(goPanic{p.mkRuntimeError("integer divide by zero")})
				}
			} else if p.branch(c.Eq(b, c.Const(b.W, 0)), "div0") {
				panic(goPanic{p.mkRuntimeError("integer divide by zero")})
			}
			if op == token.QUO {
				if uns {
					return c.Bin(OpUDiv, a, b)
				}
				return c.Bin(OpSDiv, a, b)
			}
			if uns {
				return c.Bin(OpURem, a, b)
			}
			return c.Bin(OpSRem, a, b)
		case token.AND:
			return c.Bin(OpBAnd, a, b)
		case token.OR:
			return c.Bin(OpBOr, a, b)
		case token.XOR:
			return c.Bin(OpBXor, a, b)
		case token.AND_NOT:
			return c.Bin(OpBAnd, a, c.BNot(b))
		case token.SHL, token.SHR:
			// shift count may have a different width and is unsigned (or non-negative)
			sh := b
			if sh.W < a.W {
				sh = c.ZExt(sh, a.W)
			} else if sh.W > a.W {
				// count >= width gives 0 / sign fill: saturate
				big := c.Cmp(OpUle, c.Const(sh.W, uint64(a.W)), sh)
				sh = c.Ite(big, c.Const(a.W, uint64(a.W)), c.Extract(sh, a.W-1, 0))
			}
			if op == token.SHL {
				return c.Bin(OpShl, a, sh)
			}
			if uns {
				return c.Bin(OpLShr, a, sh)
			}
			return c.Bin(OpAShr, a, sh)
		case token.EQL:
			return c.Eq(a, b)
		case token.NEQ:
			return c.Not(c.Eq(a, b))
		case token.LSS:
			if uns {
				return c.Cmp(OpUlt, a, b)
			}
			return c.Cmp(OpSlt, a, b)
		case token.LEQ:
			if uns {
				return c.Cmp(OpUle, a, b)
			}
			return c.Cmp(OpSle, a, b)
		case token.GTR:
			if uns {
				return c.Cmp(OpUlt, b, a)
			}
			return c.Cmp(OpSlt, b, a)
		case token.GEQ:
			if uns {
				return c.Cmp(OpUle, b, a)
			}
			return c.Cmp(OpSle, b, a)
		}
		p.unsupported("int binop %s", op)
	case StrV:
		b := y.(StrV)
		switch op {
		case token.EQL:
			return p.strEq(a, b)
		case token.NEQ:
			return c.Not(p.strEq(a, b))
		case token.ADD:
			if ta, ok := p.strText(a); ok {
				if tb, ok := p.strText(b); ok {
					return p.strConst(ta + tb)
				}
			}
			r := p.freshStr("concat")
			p.assume(c.Eq(p.strLen(r), c.Bin(OpAdd, p.strLen(a), p.strLen(b))))
			return r
		case token.LSS, token.LEQ, token.GTR, token.GEQ:
			if ta, ok := p.strText(a); ok {
				if tb, ok := p.strText(b); ok {
					switch op {
					case token.LSS:
						return c.Bool(ta < tb)
					case token.LEQ:
						return c.Bool(ta <= tb)
					case token.GTR:
						return c.Bool(ta > tb)
					case token.GEQ:
						return c.Bool(ta >= tb)
					}
				}
			}
			// uninterpreted strict total order on ids
			oa, ob := c.UF("sord", 32, a.ID), c.UF("sord", 32, b.ID)
			p.assume(c.Eq(c.Eq(oa, ob), c.Eq(a.ID, b.ID)))
			switch op {
			case token.LSS:
				return c.Cmp(OpUlt, oa, ob)
			case token.LEQ:
				return c.Cmp(OpUle, oa, ob)
			case token.GTR:
				return c.Cmp(OpUlt, ob, oa)
			case token.GEQ:
				return c.Cmp(OpUle, ob, oa)
			}
		}
		p.unsupported("string binop %s", op)
	case Opaque:
		switch op {
		case token.ADD, token.SUB, token.MUL, token.QUO:
			return Opaque{}
		}
		p.unsupported("float comparison %s (opaque)", op)
	}
	switch op {
	case token.EQL:
		return p.equalTerm(x, y)
	case token.NEQ:
		return c.Not(p.equalTerm(x, y))
	}
	p.unsupported("binop %s on %T", op, x)
	return nil
}

func (p *Path) strEq(a, b StrV) *Term {
	if a.ID.IsConst() && !b.ID.IsConst() {
		p.noteConstStr(uint32(a.ID.C))
	}
	if b.ID.IsConst() && !a.ID.IsConst() {
		p.noteConstStr(uint32(b.ID.C))
	}
	return p.ctx.Eq(a.ID, b.ID)
}

// equalTerm builds the Go == relation between two values.
func (p *Path) equalTerm(x, y Value) *Term {
	c := p.ctx
	switch a := x.(type) {
	case *Term:
		return c.Eq(a, y.(*Term))
	case StrV:
		return p.strEq(a, y.(StrV))
	case *Value:
		return c.Bool(a == y.(*Value))
	case Struct:
		b := y.(Struct)
		r := c.True
		for i := range a {
			r = c.And(r, p.equalTerm(a[i], b[i]))
		}
		return r
	case Array:
		b := y.(Array)
		r := c.True
		for i := range a {
			r = c.And(r, p.equalTerm(a[i], b[i]))
		}
		return r
	case Iface:
		b, ok := y.(Iface)
		if !ok {
			// comparison with untyped nil
			return c.Bool(a.T == nil && y == nil)
		}
		if a.T == nil || b.T == nil {
			return c.Bool(a.T == nil && b.T == nil)
		}
		if !types.Identical(a.T, b.T) {
			return c.False
		}
		return p.equalTerm(a.V, b.V)
	case *Chan:
		return c.Bool(a == y.(*Chan))
	case *MapV:
		b := y.(*MapV)
		return c.Bool(a == nil && b == nil) // maps only compare with nil
	case SliceV:
		b, _ := y.(SliceV)
		return c.Bool(a == nil && b == nil)
	case *Blob:
		b := y.(*Blob)
		// only comparison with nil is legal Go
		if b.Nil.IsTrue() {
			return a.Nil
		}
		if a.Nil.IsTrue() {
			return b.Nil
		}
		p.unsupported("blob == blob")
	case *Closure:
		b, _ := y.(*Closure)
		return c.Bool(a == nil && b == nil)
	case *ssa.Function:
		return c.False
	case nil:
		switch b := y.(type) {
		case nil:
			return c.True
		case Iface:
			return c.Bool(b.T == nil)
		}
	case *nativeObj:
		b, _ := y.(*nativeObj)
		return c.Bool(a == b)
	}
	p.unsupported("equality on %T / %T", x, y)
	return nil
}

func (p *Path) convert(from, to types.Type, x Value) Value {
	c := p.ctx
	fu, tu := from.Underlying(), to.Underlying()
	switch t := tu.(type) {
	case *types.Basic:
		switch {
		case t.Info()&types.IsInteger != 0:
			switch v := x.(type) {
			case *Term:
				w := intWidth(t)
				if v.W == w {
					return v
				}
				if v.W > w {
					return c.Extract(v, w-1, 0)
				}
				if isUnsigned(from) {
					return c.ZExt(v, w)
				}
				return c.SExt(v, w)
			case Opaque:
				// float -> int: opaque value becomes a fresh integer
				return p.freshVar("float2int", intWidth(t))
			case *Value:
				return c.Const(64, 0) // unsafe.Pointer -> uintptr (never inspected)
			}
		case t.Info()&types.IsFloat != 0:
			return Opaque{}
		case t.Info()&types.IsString != 0:
			switch v := x.(type) {
			case StrV:
				return v
			case *Blob:
				return StrV{v.ID}
			case *Term:
				return p.freshStr("runeconv")
			}
		case t.Kind() == types.UnsafePointer:
			return x
		}
	case *types.Slice:
		if isByteSlice(to) {
			switch v := x.(type) {
			case StrV:
				return &Blob{Nil: c.False, ID: v.ID}
			case *Blob:
				return v
			}
		}
	case *types.Pointer:
		return x
	}
	_ = fu
	p.unsupported("convert %s -> %s (%T)", from, to, x)
	return nil
}

func (fr *frame) slice(in *ssa.Slice) Value {
	p := fr.p
	x := fr.get(in.X)
	getIdx := func(v ssa.Value, def int) int {
		if v == nil {
			return def
		}
		t := fr.get(v).(*Term)
		if !t.IsConst() {
			p.unsupported("symbolic slice bound in %s at %s", fr.fn, p.eng.Prog.Fset.Position(in.Pos()))
		}
		return int(int64(t.C))
	}
	switch s := x.(type) {
	case SliceV:
		lo := getIdx(in.Low, 0)
		hi := getIdx(in.High, len(s))
		mx := getIdx(in.Max, cap(s))
		if lo < 0 || hi < lo || mx < hi || mx > cap(s) {
			panic(goPanic{p.mkRuntimeError(fmt.Sprintf("slice bounds out of range [%d:%d:%d] cap %d in %s", lo, hi, mx, cap(s), fr.fn))})
		}
		if s == nil {
			return s
		}
		return s[lo:hi:mx]
	case *Value: // pointer to array
		if s == nil {
			panic(goPanic{p.mkRuntimeError("slice of nil array pointer")})
		}
		arr := (*s).(Array)
		lo := getIdx(in.Low, 0)
		hi := getIdx(in.High, len(arr))
		mx := getIdx(in.Max, len(arr))
		if lo < 0 || hi < lo || mx < hi || mx > len(arr) {
			panic(goPanic{p.mkRuntimeError("slice bounds out of range")})
		}
		return SliceV(arr)[lo:hi:mx]
	case *Blob:
		if in.Low == nil && in.High == nil {
			return s
		}
		// b[:0] keeps emptiness
		lo := getIdx(in.Low, 0)
		if in.High != nil {
			hi := getIdx(in.High, 0)
			if lo == 0 && hi == 0 {
				return &Blob{Nil: s.Nil, ID: p.ctx.Const(32, 0)}
			}
		}
		p.unsupported("slicing a blob")
	case StrV:
		if txt, ok := p.strText(s); ok {
			lo := getIdx(in.Low, 0)
			hi := getIdx(in.High, len(txt))
			if lo < 0 || hi < lo || hi > len(txt) {
				panic(goPanic{p.mkRuntimeError("string slice bounds out of range")})
			}
			return p.strConst(txt[lo:hi])
		}
		p.unsupported("slicing a symbolic string")
	}
	p.unsupported("slice of %T", x)
	return nil
}

// concreteIndex resolves an index term against length n, forking when symbolic.
func (p *Path) concreteIndex(idx *Term, n int, where string) int {
	if idx.IsConst() {
		i := int(int64(sext64(idx.C, idx.W)))
		if i < 0 || i >= n {
			panic(goPanic{p.mkRuntimeError(fmt.Sprintf("index out of range [%d] with length %d (%s)", i, n, where))})
		}
		return i
	}
	conds := make([]*Term, n+1)
	for i := 0; i < n; i++ {
		conds[i] = p.ctx.Eq(idx, p.ctx.Const(idx.W, uint64(i)))
	}
	oob := p.ctx.True
	for i := 0; i < n; i++ {
		oob = p.ctx.And(oob, p.ctx.Not(conds[i]))
	}
	conds[n] = oob
	k := p.decide(conds, "index")
	if k == n {
		panic(goPanic{p.mkRuntimeError(fmt.Sprintf("index out of range (symbolic) with length %d (%s)", n, where))})
	}
	return k
}

func (fr *frame) indexAddr(in *ssa.IndexAddr) Value {
	p := fr.p
	x := fr.get(in.X)
	idx := fr.get(in.Index).(*Term)
	switch s := x.(type) {
	case SliceV:
		i := p.concreteIndex(idx, len(s), fr.fn.String())
		return &s[i]
	case *Value:
		if s == nil {
			panic(goPanic{p.mkRuntimeError("nil array pointer")})
		}
		arr := (*s).(Array)
		i := p.concreteIndex(idx, len(arr), fr.fn.String())
		return &arr[i]
	case *Blob:
		p.unsupported("index access into a blob in %s", fr.fn)
	}
	p.unsupported("indexaddr on %T", x)
	return nil
}

func (fr *frame) index(in *ssa.Index) Value {
	p := fr.p
	x := fr.get(in.X)
	idx := fr.get(in.Index).(*Term)
	switch s := x.(type) {
	case Array:
		i := p.concreteIndex(idx, len(s), fr.fn.String())
		return copyVal(s[i])
	case StrV:
		p.unsupported("index into string")
	}
	p.unsupported("index on %T", x)
	return nil
}

func (p *Path) typeAssert(in *ssa.TypeAssert, x Iface) Value {
	c := p.ctx
	var ok bool
	var v Value
	if _, isIface := in.AssertedType.Underlying().(*types.Interface); isIface {
		if x.T != nil {
			ok = types.Implements(x.T, in.AssertedType.Underlying().(*types.Interface))
			if !ok {
				// try pointer receiver check via method set of the program
				ok = types.AssertableTo(in.AssertedType.Underlying().(*types.Interface), x.T) && implementsVia(p, x.T, in.AssertedType.Underlying().(*types.Interface))
			}
		}
		if ok {
			v = x
		} else {
			v = Iface{}
		}
	} else {
		ok = x.T != nil && types.Identical(x.T, in.AssertedType)
		if ok {
			v = x.V
		} else {
			v = p.zero(in.AssertedType)
		}
	}
	if in.CommaOk {
		return Tuple{v, c.Bool(ok)}
	}
	if !ok {
		panic(goPanic{p.mkRuntimeError(fmt.Sprintf("interface conversion: %v is not %s", x.T, in.AssertedType))})
	}
	return v
}

func implementsVia(p *Path, t types.Type, i *types.Interface) bool {
	ms := p.eng.Prog.MethodSets.MethodSet(t)
	for k := 0; k < i.NumMethods(); k++ {
		m := i.Method(k)
		if ms.Lookup(m.Pkg(), m.Name()) == nil {
			return false
		}
	}
	return true
}

func (p *Path) mkRuntimeError(msg string) Value {
	return Iface{T: runtimeErrT, V: p.strConst("runtime error: " + msg)}
}

var runtimeErrT = types.NewNamed(types.NewTypeName(token.NoPos, nil, "runtimeError", nil), types.Typ[types.String], nil)

func (p *Path) describe(v Value) string {
	switch x := v.(type) {
	case Iface:
		if x.T == nil {
			return "nil"
		}
		return fmt.Sprintf("%s(%s)", x.T, p.describe(x.V))
	case StrV:
		if s, ok := p.strText(x); ok {
			return fmt.Sprintf("%q", s)
		}
		return "str:" + x.ID.String()
	case *Term:
		return x.String()
	case *Value:
		if x == nil {
			return "nil"
		}
		return "&" + p.describe(*x)
	case Struct:
		s := "{"
		for i, f := range x {
			if i > 0 {
				s += " "
			}
			if i > 6 {
				s += "..."
				break
			}
			s += p.describe(f)
		}
		return s + "}"
	}
	return fmt.Sprintf("%T", v)
}
