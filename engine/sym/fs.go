package sym

// File-system model for the FileSnapshotStore obligations (C15). Paths are
// concrete strings, file contents are abstract content ids, durability is
// tracked per file (fsync) and per directory (fsync of the directory makes its
// pending entry operations durable; fsync of a file also makes its own entry
// durable). A crash keeps, per directory, a PREFIX of the pending entry
// operations (metadata reaches disk in order, as on journaling file systems) and,
// per file with unsynced data, the old content, the new content or a torn one.

import (
	"fmt"
	"go/types"
	"path/filepath"
	"sort"
	"strings"

	"golang.org/x/tools/go/ssa"
)

type fsNode struct {
	isDir    bool
	content  *Term // BV32 content id of a file (0 = empty)
	durable  *Term // content as of the last fsync (nil = never synced: empty)
	dirty    bool  // unsynced data
	children map[string]*fsNode
	pending  []fsDirOp // directory: entry operations not yet durable (in order)
	durKids  map[string]*fsNode
}

type fsDirOp struct {
	kind string // "add", "del", "rename"
	name string
	node *fsNode
	to   string
}

type vfs struct {
	root     *fsNode
	nextSnap int
	crashAt  int // 0 = no crash; k = crash right before the k-th mutating call
	ops      int
	crashed  bool
	log      []string
}

type fsCrash struct{}

func (p *Path) fs() *vfs {
	if v, ok := p.ghost["__vfs"]; ok {
		return v.(*vfs)
	}
	f := &vfs{root: &fsNode{isDir: true, children: map[string]*fsNode{}, durKids: map[string]*fsNode{}}}
	p.ghost["__vfs"] = f
	return f
}

func splitPath(path string) []string {
	path = filepath.Clean(path)
	var parts []string
	for _, s := range strings.Split(path, "/") {
		if s != "" && s != "." {
			parts = append(parts, s)
		}
	}
	return parts
}

func (f *vfs) lookup(path string) *fsNode {
	n := f.root
	for _, part := range splitPath(path) {
		if n == nil || !n.isDir {
			return nil
		}
		n = n.children[part]
	}
	return n
}

func (f *vfs) parentOf(path string) (*fsNode, string) {
	parts := splitPath(path)
	if len(parts) == 0 {
		return nil, ""
	}
	n := f.root
	for _, part := range parts[:len(parts)-1] {
		if n == nil || !n.isDir {
			return nil, ""
		}
		n = n.children[part]
	}
	if n == nil || !n.isDir {
		return nil, ""
	}
	return n, parts[len(parts)-1]
}

// mutating marks one crash point; panics fsCrash when the crash is scheduled here.
func (p *Path) fsMutating(what string) {
	f := p.fs()
	f.ops++
	f.log = append(f.log, what)
	if f.crashAt != 0 && f.ops == f.crashAt {
		f.crashed = true
		panic(goPanic{Iface{T: runtimeErrT, V: p.strConst("FS-CRASH before " + what)}})
	}
}

func newDir() *fsNode {
	return &fsNode{isDir: true, children: map[string]*fsNode{}, durKids: map[string]*fsNode{}}
}

func (p *Path) fsMkdirAll(path string) {
	f := p.fs()
	n := f.root
	for _, part := range splitPath(path) {
		c := n.children[part]
		if c == nil {
			c = newDir()
			n.children[part] = c
			n.pending = append(n.pending, fsDirOp{kind: "add", name: part, node: c})
		}
		n = c
	}
}

func (p *Path) errorValue(msg string) Value { return p.newError(p.strConst(msg)) }

// ---- crash view ----

// fsApplyCrash turns the volatile state into one possible post-crash state.
func (p *Path) fsApplyCrash() {
	f := p.fs()
	var walk func(n *fsNode)
	walk = func(n *fsNode) {
		if !n.isDir {
			if n.dirty {
				// unsynced data: old content, new content, or torn
				switch p.chooseConst(3, "crash-file") {
				case 0:
					if n.durable != nil {
						n.content = n.durable
					} else {
						n.content = p.ctx.Const(32, 0)
					}
				case 1:
				case 2:
					t := p.freshStr("torn")
					p.ghost["torn:"+t.ID.String()] = true
					n.content = t.ID
					p.tornIDs = append(p.tornIDs, t.ID)
				}
				n.dirty = false
			}
			return
		}
		// a prefix of the pending entry operations survives
		k := 0
		if len(n.pending) > 0 {
			k = p.chooseConst(len(n.pending)+1, "crash-dir")
		}
		kids := map[string]*fsNode{}
		for name, c := range n.durKids {
			kids[name] = c
		}
		for _, op := range n.pending[:k] {
			switch op.kind {
			case "add":
				kids[op.name] = op.node
			case "del":
				delete(kids, op.name)
			case "rename":
				if c, ok := kids[op.name]; ok {
					delete(kids, op.name)
					kids[op.to] = c
				}
			}
		}
		n.children = kids
		n.durKids = map[string]*fsNode{}
		for name, c := range kids {
			n.durKids[name] = c
		}
		n.pending = nil
		names := make([]string, 0, len(kids))
		for name := range kids {
			names = append(names, name)
		}
		sort.Strings(names)
		for _, name := range names {
			walk(kids[name])
		}
	}
	walk(f.root)
	f.crashAt = 0
}

func (f *vfs) syncDir(n *fsNode) {
	n.durKids = map[string]*fsNode{}
	for name, c := range n.children {
		n.durKids[name] = c
	}
	n.pending = nil
}

// syncFile makes the file's data durable and (lenient rule) its own directory entry.
func (f *vfs) syncFile(n *fsNode, path string) {
	n.durable = n.content
	n.dirty = false
	par, name := f.parentOf(path)
	if par != nil && par.children[name] == n {
		// everything up to and including the creation of this entry is durable
		idx := -1
		for i, op := range par.pending {
			if (op.kind == "add" && op.name == name && op.node == n) || (op.kind == "rename" && op.to == name) {
				idx = i
			}
		}
		if idx >= 0 {
			for _, op := range par.pending[:idx+1] {
				switch op.kind {
				case "add":
					par.durKids[op.name] = op.node
				case "del":
					delete(par.durKids, op.name)
				case "rename":
					if c, ok := par.durKids[op.name]; ok {
						delete(par.durKids, op.name)
						par.durKids[op.to] = c
					}
				}
			}
			par.pending = append([]fsDirOp{}, par.pending[idx+1:]...)
		}
	}
}

// ---- intrinsic surface ----

func fileObj(path string, n *fsNode) *nativeObj {
	return &nativeObj{kind: "file", name: path, node: n}
}

func (p *Path) fsStub(fn *ssa.Function, args []Value) (Value, bool) {
	c := p.ctx
	name := fn.String()
	str := func(v Value) string {
		s, ok := p.strText(v.(StrV))
		if !ok {
			p.unsupported("file-system model needs concrete path strings (%s)", name)
		}
		return s
	}
	nilErr := Iface{}
	switch name {
	case "path/filepath.Join":
		var parts []string
		for _, e := range args[0].(SliceV) {
			parts = append(parts, str(e))
		}
		return p.strConst(filepath.Join(parts...)), true
	case "strings.TrimSuffix":
		return p.strConst(strings.TrimSuffix(str(args[0]), str(args[1]))), true
	case "os.MkdirAll":
		p.fsMutating("mkdirall " + str(args[0]))
		p.fsMkdirAll(str(args[0]))
		return nilErr, true
	case "os.IsExist", "os.IsNotExist":
		return c.False, true
	case "os.Create":
		path := str(args[0])
		p.fsMutating("create " + path)
		f := p.fs()
		par, base := f.parentOf(path)
		if par == nil {
			return Tuple{(*nativeObj)(nil), p.errorValue("create: no such directory")}, true
		}
		n := par.children[base]
		if n == nil {
			n = &fsNode{content: c.Const(32, 0)}
			par.children[base] = n
			par.pending = append(par.pending, fsDirOp{kind: "add", name: base, node: n})
		} else {
			n.content = c.Const(32, 0) // truncate
		}
		n.dirty = true
		return Tuple{fileObj(path, n), nilErr}, true
	case "os.Open":
		path := str(args[0])
		n := p.fs().lookup(path)
		if n == nil {
			return Tuple{(*nativeObj)(nil), p.errorValue("open: no such file or directory")}, true
		}
		return Tuple{fileObj(path, n), nilErr}, true
	case "os.Remove", "os.RemoveAll":
		path := str(args[0])
		p.fsMutating("remove " + path)
		f := p.fs()
		par, base := f.parentOf(path)
		if par != nil && par.children[base] != nil {
			delete(par.children, base)
			par.pending = append(par.pending, fsDirOp{kind: "del", name: base})
		}
		return nilErr, true
	case "os.Rename":
		from, to := str(args[0]), str(args[1])
		p.fsMutating("rename " + from + " -> " + to)
		f := p.fs()
		par, base := f.parentOf(from)
		par2, base2 := f.parentOf(to)
		if par == nil || par2 != par || par.children[base] == nil {
			return p.errorValue("rename failed"), true
		}
		n := par.children[base]
		delete(par.children, base)
		par.children[base2] = n
		par.pending = append(par.pending, fsDirOp{kind: "rename", name: base, to: base2})
		return nilErr, true
	case "os.ReadDir":
		n := p.fs().lookup(str(args[0]))
		if n == nil || !n.isDir {
			return Tuple{SliceV(nil), p.errorValue("readdir failed")}, true
		}
		names := make([]string, 0, len(n.children))
		for k := range n.children {
			names = append(names, k)
		}
		sort.Strings(names)
		var out SliceV
		elemT := fn.Signature.Results().At(0).Type().Underlying().(*types.Slice).Elem()
		for _, k := range names {
			out = append(out, Iface{T: elemT, V: &nativeObj{kind: "dirent", name: k, node: n.children[k]}})
		}
		return Tuple{out, nilErr}, true
	case "(*os.File).Close":
		return nilErr, true
	case "(*os.File).Sync":
		o := args[0].(*nativeObj)
		p.fsMutating("fsync " + o.name)
		f := p.fs()
		if o.node.isDir {
			f.syncDir(o.node)
		} else {
			f.syncFile(o.node, o.name)
		}
		return nilErr, true
	case "(*os.File).Stat":
		o := args[0].(*nativeObj)
		return Tuple{Iface{T: fn.Signature.Results().At(0).Type(), V: &nativeObj{kind: "fileinfo", node: o.node}}, nilErr}, true
	case "(*os.File).Seek":
		return Tuple{c.Const(64, 0), nilErr}, true
	case "(*os.File).Write":
		o := args[0].(*nativeObj)
		return p.fileWrite(o, args[1].(*Blob)), true
	case "(*os.File).Name":
		return p.strConst(args[0].(*nativeObj).name), true
	case "bufio.NewWriter":
		return &nativeObj{kind: "bufw", under: args[0]}, true
	case "(*bufio.Writer).Write":
		o := args[0].(*nativeObj)
		b := args[1].(*Blob)
		o.buf = append(o.buf, b)
		return Tuple{p.lenOf(b), nilErr}, true
	case "(*bufio.Writer).Flush":
		o := args[0].(*nativeObj)
		for _, b := range o.buf {
			p.writeTo(o.under, b)
		}
		o.buf = nil
		return nilErr, true
	case "bufio.NewReader":
		return &nativeObj{kind: "bufr", under: args[0]}, true
	case "encoding/json.NewEncoder":
		return &nativeObj{kind: "jsonenc", under: args[0]}, true
	case "(*encoding/json.Encoder).Encode":
		o := args[0].(*nativeObj)
		v := args[1].(Iface)
		s := p.freshStr("json")
		p.assume(c.Not(c.Eq(s.ID, c.Const(32, 0))))
		var payload Value = v.V
		if ptr, ok := v.V.(*Value); ok && ptr != nil {
			payload = deepCopy(*ptr)
		}
		p.payload[s.ID] = payload
		p.writeTo(o.under, &Blob{Nil: c.False, ID: s.ID})
		return nilErr, true
	case "encoding/json.NewDecoder":
		return &nativeObj{kind: "jsondec", under: args[0]}, true
	case "(*encoding/json.Decoder).Decode":
		o := args[0].(*nativeObj)
		content := p.readAll(o.under)
		leaf := p.resolveIte(content)
		pl, ok := p.payload[leaf]
		if !ok {
			return p.errorValue("json: cannot decode (empty or torn file)"), true
		}
		dst := args[1].(Iface).V.(*Value)
		storeInto(dst, deepCopy(pl))
		return nilErr, true
	case "hash/crc64.MakeTable":
		return (*Value)(nil), true
	case "hash/crc64.New":
		return Iface{T: fn.Signature.Results().At(0).Type(), V: &nativeObj{kind: "crc"}}, true
	}
	return nil, false
}

// writeTo writes blob b to an io.Writer value (native object or interpreted).
func (p *Path) writeTo(w Value, b *Blob) {
	switch x := w.(type) {
	case *nativeObj:
		x.call(p, "Write", []Value{b})
	case Iface:
		if o, ok := x.V.(*nativeObj); ok {
			o.call(p, "Write", []Value{b})
			return
		}
		p.invoke(nil, x, "Write", nil, []Value{b}, nil)
	default:
		p.unsupported("writeTo %T", w)
	}
}

// readAll returns the content id of a reader that wraps a file.
func (p *Path) readAll(r Value) *Term {
	for {
		switch x := r.(type) {
		case Iface:
			r = x.V
		case *nativeObj:
			switch x.kind {
			case "file":
				return x.node.content
			case "bufr":
				r = x.under
			default:
				p.unsupported("readAll from %s", x.kind)
			}
		default:
			p.unsupported("readAll from %T", r)
		}
	}
}

// fileWrite appends a blob to a file: contents are content ids; a file holds
// either nothing or one written blob (a second write yields a fresh combined id).
func (p *Path) fileWrite(o *nativeObj, b *Blob) Value {
	c := p.ctx
	p.fsMutating("write " + o.name)
	n := o.node
	if n.content.IsConst() && n.content.C == 0 {
		n.content = b.ID
	} else {
		comb := c.UF("cat", 32, n.content, b.ID)
		n.content = comb
	}
	n.dirty = true
	return Tuple{p.lenOf(b), Iface{}}
}

func (o *nativeObj) callFS(p *Path, name string, args []Value) (Value, bool) {
	c := p.ctx
	switch o.kind {
	case "file":
		switch name {
		case "Write":
			return p.fileWrite(o, args[0].(*Blob)), true
		case "Close":
			return Iface{}, true
		case "Read":
			p.unsupported("(*os.File).Read through an interface")
		}
	case "bufw":
		switch name {
		case "Write":
			o.buf = append(o.buf, args[0].(*Blob))
			return Tuple{p.lenOf(args[0]), Iface{}}, true
		}
	case "crc":
		switch name {
		case "Write":
			b := args[0].(*Blob)
			if o.acc == nil {
				o.acc = b.ID
			} else {
				o.acc = c.UF("cat", 32, o.acc, b.ID)
			}
			return Tuple{p.lenOf(b), Iface{}}, true
		case "Sum":
			acc := o.acc
			if acc == nil {
				acc = c.Const(32, 0)
			}
			sum := c.UF("crc64", 32, acc)
			p.crcArgs = append(p.crcArgs, acc)
			// no CRC collisions among the contents this path looks at (stated assumption)
			for _, other := range p.crcArgs {
				p.assume(c.Implies(c.Eq(c.UF("crc64", 32, other), sum), c.Eq(other, acc)))
			}
			p.assume(c.Not(c.Eq(sum, c.Const(32, 0))))
			return &Blob{Nil: c.False, ID: sum}, true
		}
	case "fileinfo":
		if name == "Size" {
			return c.ZExt(c.UF("slen", 32, o.node.content), 64), true
		}
	case "dirent":
		switch name {
		case "IsDir":
			return c.Bool(o.node.isDir), true
		case "Name":
			return p.strConst(o.name), true
		}
	}
	return nil, false
}

var _ = fmt.Sprintf

func init() {
	reg(raftPkg+".vFileContent", func(p *Path, _ *frame, _ *ssa.Function, args []Value) Value {
		// *bufferedFile{bh *bufio.Reader, fh *os.File}
		ptr := args[0].(*Value)
		st := (*ptr).(Struct)
		fh := st[1].(*nativeObj)
		return p.ctx.ZExt(fh.node.content, 64)
	})
}
