package sym

import (
	"fmt"
	"math/bits"
	"strings"
)

// Op is a term operator.
type Op uint8

const (
	OpConst Op = iota
	OpVar
	OpNot
	OpAnd
	OpOr
	OpIte
	OpEq
	OpAdd
	OpSub
	OpMul
	OpUDiv
	OpURem
	OpSDiv
	OpSRem
	OpBAnd
	OpBOr
	OpBXor
	OpShl
	OpLShr
	OpAShr
	OpNeg
	OpBNot
	OpUlt
	OpUle
	OpSlt
	OpSle
	OpZExt    // aux = extra bits
	OpSExt    // aux = extra bits
	OpExtract // aux = hi<<8|lo
	OpUF      // name = function, result width w
)

var opNames = map[Op]string{
	OpNot: "not", OpAnd: "and", OpOr: "or", OpIte: "ite", OpEq: "=",
	OpAdd: "bvadd", OpSub: "bvsub", OpMul: "bvmul", OpUDiv: "bvudiv", OpURem: "bvurem",
	OpSDiv: "bvsdiv", OpSRem: "bvsrem", OpBAnd: "bvand", OpBOr: "bvor", OpBXor: "bvxor",
	OpShl: "bvshl", OpLShr: "bvlshr", OpAShr: "bvashr", OpNeg: "bvneg", OpBNot: "bvnot",
	OpUlt: "bvult", OpUle: "bvule", OpSlt: "bvslt", OpSle: "bvsle",
}

// Term is a hash-consed SMT term. W == 0 means Bool, otherwise a bit-vector
// of width W (1..64).
type Term struct {
	Op   Op
	W    int
	Args []*Term
	C    uint64 // constant value (OpConst), masked to W bits; Bool: 0/1
	Name string // OpVar / OpUF
	Aux  int
	ID   int
}

func (t *Term) IsConst() bool { return t.Op == OpConst }
func (t *Term) IsTrue() bool  { return t.Op == OpConst && t.W == 0 && t.C == 1 }
func (t *Term) IsFalse() bool { return t.Op == OpConst && t.W == 0 && t.C == 0 }

// Ctx owns the terms of one path.
type Ctx struct {
	tab    map[string]*Term
	nextID int
	True   *Term
	False  *Term
	// Base is the window base variable (assumed < 2^62 by the path condition);
	// comparisons between Base+c1 and Base+c2 with small offsets fold.
	Base *Term
	// BaseAlign, when non-zero, is a divisor of Base asserted in the path condition.
	BaseAlign uint64
}

// baseOff reports whether t is Base or Base+const (const < 2^61).
func (c *Ctx) baseOff(t *Term) (uint64, bool) {
	if c.Base == nil {
		return 0, false
	}
	if t == c.Base {
		return 0, true
	}
	if t.Op == OpAdd && t.Args[0] == c.Base && t.Args[1].IsConst() && t.Args[1].C < 1<<61 {
		return t.Args[1].C, true
	}
	return 0, false
}

func NewCtx() *Ctx {
	c := &Ctx{tab: map[string]*Term{}}
	c.True = c.mk(&Term{Op: OpConst, W: 0, C: 1})
	c.False = c.mk(&Term{Op: OpConst, W: 0, C: 0})
	return c
}

func mask(w int) uint64 {
	if w >= 64 {
		return ^uint64(0)
	}
	return (uint64(1) << uint(w)) - 1
}

func (c *Ctx) key(t *Term) string {
	var sb strings.Builder
	fmt.Fprintf(&sb, "%d:%d:%d:%d:%s", t.Op, t.W, t.C, t.Aux, t.Name)
	for _, a := range t.Args {
		fmt.Fprintf(&sb, ",%d", a.ID)
	}
	return sb.String()
}

func (c *Ctx) mk(t *Term) *Term {
	k := c.key(t)
	if old, ok := c.tab[k]; ok {
		return old
	}
	c.nextID++
	t.ID = c.nextID
	c.tab[k] = t
	return t
}

func (c *Ctx) Bool(b bool) *Term {
	if b {
		return c.True
	}
	return c.False
}

func (c *Ctx) Const(w int, v uint64) *Term {
	if w == 0 {
		return c.Bool(v != 0)
	}
	return c.mk(&Term{Op: OpConst, W: w, C: v & mask(w)})
}

func (c *Ctx) Var(name string, w int) *Term {
	return c.mk(&Term{Op: OpVar, W: w, Name: name})
}

func (c *Ctx) UF(name string, w int, args ...*Term) *Term {
	return c.mk(&Term{Op: OpUF, W: w, Name: name, Args: args})
}

func (c *Ctx) Not(a *Term) *Term {
	if a.IsConst() {
		return c.Bool(a.C == 0)
	}
	if a.Op == OpNot {
		return a.Args[0]
	}
	return c.mk(&Term{Op: OpNot, Args: []*Term{a}})
}

func (c *Ctx) And(a, b *Term) *Term {
	if a.IsFalse() || b.IsFalse() {
		return c.False
	}
	if a.IsTrue() {
		return b
	}
	if b.IsTrue() {
		return a
	}
	if a == b {
		return a
	}
	if (a.Op == OpNot && a.Args[0] == b) || (b.Op == OpNot && b.Args[0] == a) {
		return c.False
	}
	return c.mk(&Term{Op: OpAnd, Args: []*Term{a, b}})
}

func (c *Ctx) Or(a, b *Term) *Term {
	if a.IsTrue() || b.IsTrue() {
		return c.True
	}
	if a.IsFalse() {
		return b
	}
	if b.IsFalse() {
		return a
	}
	if a == b {
		return a
	}
	if (a.Op == OpNot && a.Args[0] == b) || (b.Op == OpNot && b.Args[0] == a) {
		return c.True
	}
	return c.mk(&Term{Op: OpOr, Args: []*Term{a, b}})
}

func (c *Ctx) AndN(ts ...*Term) *Term {
	r := c.True
	for _, t := range ts {
		r = c.And(r, t)
	}
	return r
}

func (c *Ctx) OrN(ts ...*Term) *Term {
	r := c.False
	for _, t := range ts {
		r = c.Or(r, t)
	}
	return r
}

func (c *Ctx) Implies(a, b *Term) *Term { return c.Or(c.Not(a), b) }

func (c *Ctx) Ite(cond, a, b *Term) *Term {
	if cond.IsTrue() {
		return a
	}
	if cond.IsFalse() {
		return b
	}
	if a == b {
		return a
	}
	if a.W != b.W {
		panic(fmt.Sprintf("ite width mismatch %d %d", a.W, b.W))
	}
	if a.W == 0 {
		if a.IsTrue() && b.IsFalse() {
			return cond
		}
		if a.IsFalse() && b.IsTrue() {
			return c.Not(cond)
		}
	}
	return c.mk(&Term{Op: OpIte, W: a.W, Args: []*Term{cond, a, b}})
}

func (c *Ctx) Eq(a, b *Term) *Term {
	if a == b {
		return c.True
	}
	if a.W != b.W {
		panic(fmt.Sprintf("eq width mismatch %d %d (%s vs %s)", a.W, b.W, a, b))
	}
	if a.IsConst() && b.IsConst() {
		return c.Bool(a.C == b.C)
	}
	if oa, ok := c.baseOff(a); ok {
		if ob, ok := c.baseOff(b); ok {
			return c.Bool(oa == ob)
		}
	}
	// x+c1 == x+c2
	if a.Op == OpAdd && b.Op == OpAdd && a.Args[0] == b.Args[0] && a.Args[1].IsConst() && b.Args[1].IsConst() {
		return c.Bool(a.Args[1].C == b.Args[1].C)
	}
	if a.Op == OpAdd && a.Args[0] == b && a.Args[1].IsConst() {
		return c.Bool(a.Args[1].C == 0)
	}
	if b.Op == OpAdd && b.Args[0] == a && b.Args[1].IsConst() {
		return c.Bool(b.Args[1].C == 0)
	}
	if a.W == 0 {
		if a.IsTrue() {
			return b
		}
		if b.IsTrue() {
			return a
		}
		if a.IsFalse() {
			return c.Not(b)
		}
		if b.IsFalse() {
			return c.Not(a)
		}
	}
	// canonical order
	if a.ID > b.ID {
		a, b = b, a
	}
	return c.mk(&Term{Op: OpEq, Args: []*Term{a, b}})
}

func sext64(v uint64, w int) int64 {
	if w >= 64 {
		return int64(v)
	}
	sh := uint(64 - w)
	return int64(v<<sh) >> sh
}

// Bin builds a bit-vector binary operation with constant folding.
func (c *Ctx) Bin(op Op, a, b *Term) *Term {
	if a.W != b.W {
		panic(fmt.Sprintf("bin %s width mismatch %d %d", opNames[op], a.W, b.W))
	}
	w := a.W
	if a.IsConst() && b.IsConst() {
		x, y := a.C, b.C
		var r uint64
		ok := true
		switch op {
		case OpAdd:
			r = x + y
		case OpSub:
			r = x - y
		case OpMul:
			r = x * y
		case OpUDiv:
			if y == 0 {
				r = mask(w)
			} else {
				r = x / y
			}
		case OpURem:
			if y == 0 {
				r = x
			} else {
				r = x % y
			}
		case OpSDiv:
			sx, sy := sext64(x, w), sext64(y, w)
			if sy == 0 {
				if sx < 0 {
					r = 1
				} else {
					r = mask(w)
				}
			} else if sy == -1 {
				r = uint64(-sx)
			} else {
				r = uint64(sx / sy)
			}
		case OpSRem:
			sx, sy := sext64(x, w), sext64(y, w)
			if sy == 0 {
				r = x
			} else if sy == -1 {
				r = 0
			} else {
				r = uint64(sx % sy)
			}
		case OpBAnd:
			r = x & y
		case OpBOr:
			r = x | y
		case OpBXor:
			r = x ^ y
		case OpShl:
			if y >= uint64(w) {
				r = 0
			} else {
				r = x << y
			}
		case OpLShr:
			if y >= uint64(w) {
				r = 0
			} else {
				r = x >> y
			}
		case OpAShr:
			sx := sext64(x, w)
			if y >= uint64(w) {
				y = uint64(w - 1)
			}
			r = uint64(sx >> y)
		default:
			ok = false
		}
		if ok {
			return c.Const(w, r)
		}
	}
	if op == OpURem && b.IsConst() && b.C != 0 && c.BaseAlign != 0 && c.BaseAlign%b.C == 0 {
		if off, ok := c.baseOff(a); ok {
			return c.Const(w, off%b.C)
		}
	}
	switch op {
	case OpAdd:
		if a.IsConst() && a.C == 0 {
			return b
		}
		if b.IsConst() && b.C == 0 {
			return a
		}
		// (x + c1) + c2
		if b.IsConst() && a.Op == OpAdd && a.Args[1].IsConst() {
			return c.Bin(OpAdd, a.Args[0], c.Const(w, a.Args[1].C+b.C))
		}
		if a.IsConst() && !b.IsConst() {
			a, b = b, a
		}
	case OpSub:
		if b.IsConst() && b.C == 0 {
			return a
		}
		if a == b {
			return c.Const(w, 0)
		}
		if b.IsConst() {
			return c.Bin(OpAdd, a, c.Const(w, -b.C))
		}
	case OpMul:
		if (a.IsConst() && a.C == 0) || (b.IsConst() && b.C == 0) {
			return c.Const(w, 0)
		}
		if a.IsConst() && a.C == 1 {
			return b
		}
		if b.IsConst() && b.C == 1 {
			return a
		}
	case OpBAnd:
		if a == b {
			return a
		}
		if (a.IsConst() && a.C == 0) || (b.IsConst() && b.C == 0) {
			return c.Const(w, 0)
		}
	case OpBOr, OpBXor:
		if a.IsConst() && a.C == 0 {
			return b
		}
		if b.IsConst() && b.C == 0 {
			return a
		}
	case OpShl, OpLShr, OpAShr:
		if b.IsConst() && b.C == 0 {
			return a
		}
	}
	return c.mk(&Term{Op: op, W: w, Args: []*Term{a, b}})
}

func (c *Ctx) Neg(a *Term) *Term {
	if a.IsConst() {
		return c.Const(a.W, -a.C)
	}
	return c.mk(&Term{Op: OpNeg, W: a.W, Args: []*Term{a}})
}

func (c *Ctx) BNot(a *Term) *Term {
	if a.IsConst() {
		return c.Const(a.W, ^a.C)
	}
	return c.mk(&Term{Op: OpBNot, W: a.W, Args: []*Term{a}})
}

// Cmp builds a comparison (OpUlt, OpUle, OpSlt, OpSle).
func (c *Ctx) Cmp(op Op, a, b *Term) *Term {
	if a.W != b.W {
		panic(fmt.Sprintf("cmp width mismatch %d %d", a.W, b.W))
	}
	if a.IsConst() && b.IsConst() {
		switch op {
		case OpUlt:
			return c.Bool(a.C < b.C)
		case OpUle:
			return c.Bool(a.C <= b.C)
		case OpSlt:
			return c.Bool(sext64(a.C, a.W) < sext64(b.C, a.W))
		case OpSle:
			return c.Bool(sext64(a.C, a.W) <= sext64(b.C, a.W))
		}
	}
	if a == b {
		return c.Bool(op == OpUle || op == OpSle)
	}
	if oa, ok := c.baseOff(a); ok {
		if ob, ok := c.baseOff(b); ok {
			// Base < 2^62 and offsets < 2^61: no wrap, signed and unsigned agree
			switch op {
			case OpUlt, OpSlt:
				return c.Bool(oa < ob)
			case OpUle, OpSle:
				return c.Bool(oa <= ob)
			}
		}
	}
	if op == OpUlt && b.IsConst() && b.C == 0 {
		return c.False
	}
	if op == OpUle && a.IsConst() && a.C == 0 {
		return c.True
	}
	return c.mk(&Term{Op: op, Args: []*Term{a, b}})
}

func (c *Ctx) ZExt(a *Term, to int) *Term {
	if to == a.W {
		return a
	}
	if to < a.W {
		return c.Extract(a, to-1, 0)
	}
	if a.IsConst() {
		return c.Const(to, a.C)
	}
	return c.mk(&Term{Op: OpZExt, W: to, Aux: to - a.W, Args: []*Term{a}})
}

func (c *Ctx) SExt(a *Term, to int) *Term {
	if to == a.W {
		return a
	}
	if to < a.W {
		return c.Extract(a, to-1, 0)
	}
	if a.IsConst() {
		return c.Const(to, uint64(sext64(a.C, a.W)))
	}
	return c.mk(&Term{Op: OpSExt, W: to, Aux: to - a.W, Args: []*Term{a}})
}

func (c *Ctx) Extract(a *Term, hi, lo int) *Term {
	if lo == 0 && hi == a.W-1 {
		return a
	}
	if a.IsConst() {
		return c.Const(hi-lo+1, a.C>>uint(lo))
	}
	switch a.Op {
	case OpIte:
		return c.Ite(a.Args[0], c.Extract(a.Args[1], hi, lo), c.Extract(a.Args[2], hi, lo))
	case OpZExt:
		inner := a.Args[0]
		if hi < inner.W {
			return c.Extract(inner, hi, lo)
		}
		if lo >= inner.W {
			return c.Const(hi-lo+1, 0)
		}
	}
	return c.mk(&Term{Op: OpExtract, W: hi - lo + 1, Aux: hi<<8 | lo, Args: []*Term{a}})
}

// BoolToBV converts a Bool to a 1/0 bit-vector of width w.
func (c *Ctx) BoolToBV(b *Term, w int) *Term {
	return c.Ite(b, c.Const(w, 1), c.Const(w, 0))
}

func sortOf(w int) string {
	if w == 0 {
		return "Bool"
	}
	return fmt.Sprintf("(_ BitVec %d)", w)
}

func constStr(w int, v uint64) string {
	if w == 0 {
		if v != 0 {
			return "true"
		}
		return "false"
	}
	if w%4 == 0 {
		return fmt.Sprintf("#x%0*x", w/4, v)
	}
	return fmt.Sprintf("(_ bv%d %d)", v, w)
}

func (t *Term) String() string {
	switch t.Op {
	case OpConst:
		if t.W == 0 {
			return constStr(0, t.C)
		}
		return fmt.Sprintf("%d", t.C)
	case OpVar:
		return t.Name
	}
	var sb strings.Builder
	sb.WriteString("(")
	if n, ok := opNames[t.Op]; ok {
		sb.WriteString(n)
	} else {
		switch t.Op {
		case OpZExt:
			fmt.Fprintf(&sb, "zext%d", t.Aux)
		case OpSExt:
			fmt.Fprintf(&sb, "sext%d", t.Aux)
		case OpExtract:
			fmt.Fprintf(&sb, "extract[%d:%d]", t.Aux>>8, t.Aux&0xff)
		case OpUF:
			sb.WriteString(t.Name)
		}
	}
	for _, a := range t.Args {
		sb.WriteString(" ")
		sb.WriteString(a.String())
	}
	sb.WriteString(")")
	return sb.String()
}

var _ = bits.Len
