package sym

import (
	"os/exec"
	"crypto/sha1"
	"encoding/hex"
	"fmt"
	"os"
	"path/filepath"
	"runtime/debug"
	"sort"
	"strings"
	"sync"
	"time"

	"golang.org/x/tools/go/ssa"
)

// Options configure one harness run.
type Options struct {
	Harness      string
	Only         []string // assertion-id prefixes to evaluate (empty = all)
	Unwind       int      // max symbolic decisions at one branch instruction in one frame
	MaxPaths     int
	MaxSteps     int
	TimeoutMs    int
	Workers      int
	Seed         int64
	DumpDir      string // if set, final assertion queries are dumped here (sampled)
	DumpMax      int
	Verbose      bool
	StopAtFirst  bool
	ConcreteVals map[string]uint64 // concrete mode: input name -> value (translator validation)
	Concrete     bool
	Tier         int
	MaxSeconds   int
	Progress     bool
	Witnesses    int // number of completed paths for which a concrete model is extracted (translator validation)
}

type Input struct {
	Name string `json:"name"`
	Kind string `json:"kind"` // u64,u8,bool,str,blob,choose,fail,select,perm,...
	W    int    `json:"w"`
	term *Term
	lenT *Term
	Val  uint64 `json:"value"`
	Len  uint64 `json:"len,omitempty"`
	Text string `json:"text,omitempty"`
}

type Violation struct {
	AssertID string   `json:"assert_id"`
	Harness  string   `json:"harness"`
	Inputs   []Input  `json:"inputs"`
	Trace    []int    `json:"decisions"`
	Notes    []string `json:"notes,omitempty"`
	Where    string   `json:"where"`
}

type AssertStat struct {
	Checked      int     `json:"checked"`       // solver queries (non-trivial)
	Trivial      int     `json:"trivial"`       // condition folded to true
	Unsat        int     `json:"unsat"`         // discharged
	Sat          int     `json:"sat"`           // violated
	Unknown      int     `json:"unknown"`       // inconclusive
	Skipped      int     `json:"skipped"`       // not selected by -only
	Seconds      float64 `json:"seconds"`
	ConcreteFail int     `json:"concrete_fail"` // concrete mode: assertion false
	Fallback     int     `json:"decided_by_fallback_solver"`
}

type HarnessResult struct {
	Harness     string                 `json:"harness"`
	Paths       int                    `json:"paths"`
	Completed   int                    `json:"completed"`
	Statuses    map[string]int         `json:"statuses"`
	StatusMsgs  map[string]string      `json:"status_msgs,omitempty"`
	Asserts     map[string]*AssertStat `json:"asserts"`
	Covers      map[string]int         `json:"covers"`
	Violations  []Violation            `json:"violations"`
	Queries     int                    `json:"queries"`
	SolverSecs  float64                `json:"solver_seconds"`
	SolverErrs  int                    `json:"solver_errors"`
	WallSecs    float64                `json:"wall_seconds"`
	Functions   map[string]int         `json:"functions_encoded"` // name -> SSA instruction count
	Stubs       map[string]int         `json:"stubs_reached"`
	Unwinds     int                    `json:"unwinding_assertions_checked"`
	MaxDecision int                    `json:"max_decisions_on_a_path"`
	Steps       int64                  `json:"ssa_instructions_executed"`
	Inconclusive bool                  `json:"inconclusive"`
	PathLimit   bool                   `json:"path_limit_hit"`
	Dumped      []string               `json:"dumped_queries,omitempty"`
	SamplePaths []string               `json:"sample_paths,omitempty"`
	Witnesses   []Violation            `json:"witnesses,omitempty"`
	ConcreteObs []string               `json:"concrete_observations,omitempty"`
}

type Engine struct {
	Prog *ssa.Program
	Pkg  *ssa.Package
	Opt  Options

	mu      sync.Mutex
	work    [][]int
	active  int
	cond    *sync.Cond
	res     *HarnessResult
	started int
	dumpN   int
	witN    int
	stop    bool
}

func NewEngine(prog *ssa.Program, pkg *ssa.Package, opt Options) *Engine {
	if opt.Unwind == 0 {
		opt.Unwind = 16
	}
	if opt.MaxPaths == 0 {
		opt.MaxPaths = 200000
	}
	if opt.MaxSteps == 0 {
		opt.MaxSteps = 3000000
	}
	if opt.TimeoutMs == 0 {
		opt.TimeoutMs = 60000
	}
	if opt.Workers == 0 {
		opt.Workers = 8
	}
	e := &Engine{Prog: prog, Pkg: pkg, Opt: opt}
	e.cond = sync.NewCond(&e.mu)
	return e
}

func (e *Engine) selected(id string) bool {
	if len(e.Opt.Only) == 0 {
		return true
	}
	// "KF:<finding>:<assert id>" is attributed by its assert id
	if strings.HasPrefix(id, "KF:") {
		if k := strings.Index(id[3:], ":"); k >= 0 {
			id = id[3+k+1:]
		}
	}
	for _, p := range e.Opt.Only {
		if strings.HasPrefix(id, p) {
			return true
		}
	}
	return false
}

// Run explores all paths of the harness.
func (e *Engine) Run() (*HarnessResult, error) {
	fn := e.Pkg.Func(e.Opt.Harness)
	if fn == nil {
		return nil, fmt.Errorf("harness %s not found in package %s", e.Opt.Harness, e.Pkg.Pkg.Path())
	}
	e.res = &HarnessResult{
		Harness: e.Opt.Harness, Statuses: map[string]int{}, StatusMsgs: map[string]string{},
		Asserts: map[string]*AssertStat{}, Covers: map[string]int{},
		Functions: map[string]int{}, Stubs: map[string]int{},
	}
	t0 := time.Now()
	e.work = [][]int{{}}
	var wg sync.WaitGroup
	nw := e.Opt.Workers
	if e.Opt.Concrete {
		nw = 1
	}
	errs := make(chan error, nw)
	doneCh := make(chan struct{})
	go func() {
		tick := time.NewTicker(10 * time.Second)
		defer tick.Stop()
		for {
			select {
			case <-doneCh:
				return
			case <-tick.C:
				e.mu.Lock()
				el := time.Since(t0).Seconds()
				if e.Opt.Progress {
					fmt.Fprintf(os.Stderr, "[%s] %.0fs paths=%d queued=%d active=%d statuses=%v\n", e.Opt.Harness, el, e.res.Paths, len(e.work), e.active, e.res.Statuses)
				}
				if e.Opt.MaxSeconds > 0 && int(el) > e.Opt.MaxSeconds && !e.stop {
					e.res.PathLimit = true
					e.stop = true
					e.cond.Broadcast()
				}
				e.mu.Unlock()
			}
		}
	}()
	for i := 0; i < nw; i++ {
		wg.Add(1)
		go func(wid int) {
			defer wg.Done()
			var sol *Solver
			if !e.Opt.Concrete {
				var err error
				sol, err = NewSolver(e.Opt.TimeoutMs)
				if err != nil {
					errs <- err
					return
				}
				defer sol.Close()
			}
			for {
				prefix, ok := e.take()
				if !ok {
					break
				}
				p := newPath(e, sol, fn, prefix)
				p.run()
				e.finish(p)
			}
			if sol != nil {
				e.mu.Lock()
				e.res.Queries += sol.Queries
				e.res.SolverSecs += sol.Seconds
				e.res.SolverErrs += sol.Errors
				e.mu.Unlock()
			}
		}(i)
	}
	wg.Wait()
	close(doneCh)
	select {
	case err := <-errs:
		return nil, err
	default:
	}
	e.res.WallSecs = time.Since(t0).Seconds()
	for st := range e.res.Statuses {
		switch st {
		case "OK", "ASSUMED-AWAY", "PANIC", "DEADLOCK", "CRASH":
		default:
			e.res.Inconclusive = true
		}
	}
	for _, a := range e.res.Asserts {
		if a.Unknown > 0 {
			e.res.Inconclusive = true
		}
	}
	if e.res.SolverErrs > 0 || e.res.PathLimit {
		e.res.Inconclusive = true
	}
	sort.Slice(e.res.Violations, func(i, j int) bool { return e.res.Violations[i].AssertID < e.res.Violations[j].AssertID })
	return e.res, nil
}

func (e *Engine) take() ([]int, bool) {
	e.mu.Lock()
	defer e.mu.Unlock()
	for {
		if e.stop {
			return nil, false
		}
		if n := len(e.work); n > 0 {
			if e.started >= e.Opt.MaxPaths {
				e.res.PathLimit = true
				e.work = nil
				continue
			}
			p := e.work[n-1]
			e.work = e.work[:n-1]
			e.active++
			e.started++
			return p, true
		}
		if e.active == 0 {
			e.cond.Broadcast()
			return nil, false
		}
		e.cond.Wait()
	}
}

func (e *Engine) finish(p *Path) {
	e.mu.Lock()
	defer e.mu.Unlock()
	e.active--
	r := e.res
	r.Paths++
	r.Statuses[p.status]++
	if p.statusMsg != "" {
		if _, ok := r.StatusMsgs[p.status]; !ok {
			r.StatusMsgs[p.status] = p.statusMsg
		}
	}
	if p.status == "OK" {
		r.Completed++
	}
	for id, st := range p.asserts {
		a := r.Asserts[id]
		if a == nil {
			a = &AssertStat{}
			r.Asserts[id] = a
		}
		a.Checked += st.Checked
		a.Trivial += st.Trivial
		a.Unsat += st.Unsat
		a.Sat += st.Sat
		a.Unknown += st.Unknown
		a.Skipped += st.Skipped
		a.Seconds += st.Seconds
		a.ConcreteFail += st.ConcreteFail
		a.Fallback += st.Fallback
	}
	for _, c := range p.covers {
		r.Covers[c]++
	}
	// keep at most 3 violations per assertion id
	cnt := map[string]int{}
	for _, v := range r.Violations {
		cnt[v.AssertID]++
	}
	for _, v := range p.violations {
		if cnt[v.AssertID] < 3 {
			r.Violations = append(r.Violations, v)
			cnt[v.AssertID]++
		}
	}
	if len(p.violations) > 0 && e.Opt.StopAtFirst {
		e.stop = true
	}
	for f, n := range p.funcs {
		r.Functions[f] = n
	}
	for f, n := range p.stubs {
		r.Stubs[f] += n
	}
	r.Unwinds += p.unwindChecks
	if len(p.trace) > r.MaxDecision {
		r.MaxDecision = len(p.trace)
	}
	r.Steps += int64(p.steps)
	r.Dumped = append(r.Dumped, p.dumped...)
	r.ConcreteObs = append(r.ConcreteObs, p.obs...)
	if len(r.SamplePaths) < 3 && p.status == "OK" && len(p.notes) > 0 {
		r.SamplePaths = append(r.SamplePaths, strings.Join(p.notes, "; "))
	}
	if p.witness != nil {
		r.Witnesses = append(r.Witnesses, *p.witness)
	}
	for _, alt := range p.newAlts {
		e.work = append(e.work, alt)
	}
	e.cond.Broadcast()
}

// ---- Path ----

type pathEnd struct{}
type killed struct{}

type Path struct {
	eng    *Engine
	sol    *Solver
	ctx    *Ctx
	fn     *ssa.Function
	prefix []int
	pos    int
	trace  []int
	newAlts [][]int

	inputs   []Input
	varCount map[string]int
	constAx  map[uint32]bool
	globals  map[*ssa.Global]*Value
	sideTab  map[*Value]Value // atomic.Value / sync.Once etc.
	steps    int
	status   string
	statusMsg string
	asserts  map[string]*AssertStat
	covers   []string
	violations []Violation
	funcs    map[string]int
	stubs    map[string]int
	unwindChecks int
	notes    []string
	dumped   []string
	obs      []string
	lastNow  *Term
	nowCount int

	// scheduler
	gs       []*G
	cur      *G
	finished chan struct{}
	kill     chan struct{}
	endOnce  sync.Once
	spawnRun bool // run goroutines spawned by code under test
	pendingGo []*G
	chanN    int
	timers   map[string]int // timer policy by label: 0 never,1 fires now,2 may fire
	mapPerm  bool
	failOn   bool
	crashOn  bool
	storeLog []string
	ghost    map[string]Value
	inInit   bool
	payload  map[*Term]Value
	callerName string
	lateTimers []*Chan
	witness  *Violation
	tornIDs  []*Term
	crcArgs  []*Term
	volatile map[*Value]bool // atomic cells another goroutine may change at any moment (vVolatile)
	pcDirty  bool // assumptions added since the last satisfiability check
}

func newPath(e *Engine, sol *Solver, fn *ssa.Function, prefix []int) *Path {
	p := &Path{eng: e, sol: sol, fn: fn, prefix: prefix,
		ctx: NewCtx(), varCount: map[string]int{}, constAx: map[uint32]bool{},
		globals: map[*ssa.Global]*Value{}, sideTab: map[*Value]Value{},
		asserts: map[string]*AssertStat{}, funcs: map[string]int{}, stubs: map[string]int{},
		finished: make(chan struct{}), kill: make(chan struct{}),
		timers: map[string]int{}, ghost: map[string]Value{}, payload: map[*Term]Value{},
	}
	if sol != nil {
		sol.Reset()
	}
	return p
}

func (p *Path) end(status, msg string) {
	if p.status == "" {
		p.status = status
		p.statusMsg = msg
	}
	panic(pathEnd{})
}

func (p *Path) unsupported(format string, args ...interface{}) {
	p.end("UNSUPPORTED", fmt.Sprintf(format, args...))
}

func (p *Path) assume(t *Term) {
	if p.eng.Opt.Concrete {
		return
	}
	p.sol.Assert(t)
}

func (p *Path) freshVar(name string, w int) *Term {
	k := p.varCount[name]
	p.varCount[name] = k + 1
	full := fmt.Sprintf("%s#%d", name, k)
	if p.eng.Opt.Concrete {
		v, ok := p.eng.Opt.ConcreteVals[full]
		if !ok {
			v = concreteDefault(p.eng.Opt.Seed, full, w)
		}
		return p.ctx.Const(w, v)
	}
	return p.ctx.Var(full, w)
}

func concreteDefault(seed int64, name string, w int) uint64 {
	h := sha1.Sum([]byte(fmt.Sprintf("%d/%s", seed, name)))
	var v uint64
	for i := 0; i < 8; i++ {
		v = v<<8 | uint64(h[i])
	}
	// bias towards small values so that interesting branches are hit
	switch h[8] % 4 {
	case 0:
		v %= 4
	case 1:
		v %= 16
	case 2:
		v %= 1 << 20
	}
	return v & mask(wOr64(w))
}

func wOr64(w int) int {
	if w == 0 {
		return 1
	}
	return w
}

func (p *Path) addInput(name, kind string, t *Term) {
	p.inputs = append(p.inputs, Input{Name: name, Kind: kind, W: t.W, term: t})
}

// check asks whether (pc ∧ t) is satisfiable.
func (p *Path) check(t *Term) Result {
	if t.IsFalse() {
		return Unsat
	}
	if p.eng.Opt.Concrete {
		if t.IsTrue() {
			return Sat
		}
		p.unsupported("non-constant condition in concrete mode: %s", t)
	}
	return p.sol.Check(t)
}

// decide chooses one of the alternatives (conds are exhaustive). Returns the index.
func (p *Path) decide(conds []*Term, kind string) int {
	nTrue, last := 0, -1
	nonFalse := 0
	for i, c := range conds {
		if c.IsTrue() {
			nTrue++
			last = i
		}
		if !c.IsFalse() {
			nonFalse++
			if last < 0 || !conds[last].IsTrue() {
				last = i
			}
		}
	}
	if nonFalse == 0 {
		p.end("INFEASIBLE", "no alternative at "+kind)
	}
	if nonFalse == 1 {
		if !conds[last].IsTrue() {
			p.assume(conds[last])
		}
		return last // deterministic, not recorded
	}
	if p.pos < len(p.prefix) {
		idx := p.prefix[p.pos]
		p.pos++
		p.trace = append(p.trace, idx)
		p.assume(conds[idx])
		return idx
	}
	// settle pending assumptions first, so that alternatives are only ever
	// enqueued under a satisfiable path condition
	p.ensureFeasible()
	var feas []int
	solverSat := false
	for i, c := range conds {
		if c.IsFalse() {
			continue
		}
		if c.IsTrue() {
			feas = append(feas, i)
			continue
		}
		// last alternative is feasible if none before was (pc is satisfiable)
		if i == len(conds)-1 && len(feas) == 0 && !p.pcDirty {
			feas = append(feas, i)
			continue
		}
		r := p.check(c)
		if r == Sat {
			solverSat = true
		}
		if r != Unsat {
			if r == Unknown {
				p.notes = append(p.notes, "unknown feasibility at "+kind)
				p.asserts["__feasibility"] = addUnknown(p.asserts["__feasibility"])
			}
			feas = append(feas, i)
		}
	}
	if len(feas) == 0 {
		if p.pcDirty {
			p.end("ASSUMED-AWAY", "")
		}
		p.end("INFEASIBLE", "no feasible alternative at "+kind)
	}
	if solverSat {
		p.pcDirty = false // the solver just found the path condition (plus an alternative) satisfiable
	}
	idx := feas[0]
	for _, o := range feas[1:] {
		alt := make([]int, len(p.trace)+1)
		copy(alt, p.trace)
		alt[len(p.trace)] = o
		p.newAlts = append(p.newAlts, alt)
	}
	p.pos++
	p.trace = append(p.trace, idx)
	p.assume(conds[idx])
	return idx
}

// ensureFeasible ends the path silently if pending assumptions made the path
// condition unsatisfiable.
func (p *Path) ensureFeasible() {
	if !p.pcDirty || p.eng.Opt.Concrete {
		return
	}
	if p.sol.Check(p.ctx.True) == Unsat {
		p.end("ASSUMED-AWAY", "")
	}
	p.pcDirty = false
}

func addUnknown(a *AssertStat) *AssertStat {
	if a == nil {
		a = &AssertStat{}
	}
	a.Unknown++
	return a
}

// branch decides a boolean condition; returns true for the then-side.
func (p *Path) branch(c *Term, kind string) bool {
	if c.IsTrue() {
		return true
	}
	if c.IsFalse() {
		return false
	}
	return p.decide([]*Term{c, p.ctx.Not(c)}, kind) == 0
}

// chooseConst forks over n always-feasible alternatives.
func (p *Path) chooseConst(n int, kind string) int {
	if n == 1 {
		return 0
	}
	conds := make([]*Term, n)
	for i := range conds {
		conds[i] = p.ctx.True
	}
	return p.decide(conds, kind)
}

func (p *Path) stat(id string) *AssertStat {
	a := p.asserts[id]
	if a == nil {
		a = &AssertStat{}
		p.asserts[id] = a
	}
	return a
}

func (p *Path) doAssert(cond *Term, id string, where string) {
	a := p.stat(id)
	if !p.eng.selected(id) {
		a.Skipped++
		return
	}
	if cond.IsTrue() {
		a.Trivial++
		return
	}
	p.ensureFeasible()
	if p.eng.Opt.Concrete {
		if cond.IsFalse() {
			a.ConcreteFail++
			p.obs = append(p.obs, "assert-false:"+id)
			return
		}
		p.unsupported("symbolic assertion in concrete mode")
	}
	neg := p.ctx.Not(cond)
	t0 := time.Now()
	r := p.check(neg)
	a.Checked++
	a.Seconds += time.Since(t0).Seconds()
	if r == Unknown {
		// retry on the other solvers before declaring the query inconclusive
		if fr, who := p.fallbackCheck(neg); fr != Unknown {
			r = fr
			p.notes = append(p.notes, "decided by "+who)
			a.Fallback++
		}
	}
	p.maybeDump(neg, id, r)
	switch r {
	case Unsat:
		a.Unsat++
		p.assume(cond) // proven under the path condition: keep it as a lemma for later queries
	case Unknown:
		a.Unknown++
	case Sat:
		a.Sat++
		v := Violation{AssertID: id, Harness: p.eng.Opt.Harness, Where: where, Notes: append([]string{}, p.notes...)}
		p.fillModel(&v)
		v.Trace = append([]int{}, p.trace...)
		p.violations = append(p.violations, v)
		// continue under the assumption that the assertion held, so that later
		// assertions are judged independently
		if p.check(cond) == Unsat {
			p.end("OK", "path ended at always-failing assertion "+id)
		}
		p.assume(cond)
	}
}

func (p *Path) fillModel(v *Violation) {
	var vars []*Term
	for _, in := range p.inputs {
		if in.term != nil && !in.term.IsConst() {
			vars = append(vars, in.term)
		}
		if in.lenT != nil && !in.lenT.IsConst() {
			vars = append(vars, in.lenT)
		}
	}
	vals, ok := p.sol.Values(vars)
	if !ok {
		v.Notes = append(v.Notes, "model extraction failed")
	}
	for _, in := range p.inputs {
		o := in
		if in.term != nil {
			if in.term.IsConst() {
				o.Val = in.term.C
			} else {
				o.Val = vals[termKey(in.term)]
			}
		}
		if in.lenT != nil {
			if in.lenT.IsConst() {
				o.Len = in.lenT.C
			} else {
				o.Len = vals[termKey(in.lenT)]
			}
		}
		if in.Kind == "str" || in.Kind == "blob" {
			if s, ok := lookupInterned(uint32(o.Val)); ok {
				o.Text = s
			}
		}
		v.Inputs = append(v.Inputs, o)
	}
}

func termKey(t *Term) string {
	if t.Op == OpVar {
		return t.Name
	}
	return fmt.Sprintf("_t%d", t.ID)
}

func (p *Path) maybeDump(neg *Term, id string, r Result) {
	e := p.eng
	if e.Opt.DumpDir == "" {
		return
	}
	e.mu.Lock()
	if e.dumpN >= e.Opt.DumpMax {
		e.mu.Unlock()
		return
	}
	e.dumpN++
	n := e.dumpN
	e.mu.Unlock()
	script := p.sol.Script(neg)
	h := sha1.Sum([]byte(script))
	name := filepath.Join(e.Opt.DumpDir, fmt.Sprintf("%s-%03d-%s-%s.smt2", e.Opt.Harness, n, sanitize(id), hex.EncodeToString(h[:4])))
	os.MkdirAll(e.Opt.DumpDir, 0o755)
	hdr := fmt.Sprintf("; harness=%s assert=%s expected=%s\n(set-logic ALL)\n", e.Opt.Harness, id, r)
	os.WriteFile(name, []byte(hdr+script), 0o644)
	p.dumped = append(p.dumped, name+" "+r.String())
}

func sanitize(s string) string {
	return strings.Map(func(r rune) rune {
		if r >= 'a' && r <= 'z' || r >= 'A' && r <= 'Z' || r >= '0' && r <= '9' || r == '.' || r == '-' {
			return r
		}
		return '_'
	}, s)
}

func (p *Path) run() {
	defer func() {
		// kill every parked goroutine of this path
		close(p.kill)
	}()
	g := p.newG("harness")
	p.cur = g
	go p.goMain(g, func() {
		p.runInit()
		p.call(nil, p.fn, nil)
		p.ensureFeasible()
		p.maybeWitness()
		p.end("OK", "")
	})
	<-p.finished
}

// goMain is the top of every interpreter goroutine.
func (p *Path) goMain(g *G, body func()) {
	defer func() {
		r := recover()
		switch x := r.(type) {
		case nil:
			return // a non-harness goroutine finished normally (gExit handed the baton on)
		case killed:
			return
		case pathEnd:
		case goPanic:
			if p.status == "" {
				msg := p.describe(x.v)
				if id, ok := p.ghost["__nopanic"]; ok {
					// the harness asserted that the code under test does not panic
					func() {
						defer func() { recover() }()
						p.violationNow(id.(string), "panic: "+msg)
					}()
					if p.status == "" {
						p.status = "OK"
						p.statusMsg = "ended by a panic reported as violation of " + id.(string)
					}
				} else {
					p.status = "PANIC"
					p.statusMsg = msg
				}
			}
		default:
			if p.status == "" {
				p.status = "ENGINE-ERROR"
				p.statusMsg = fmt.Sprintf("%v\n%s", r, debug.Stack())
			}
		}
		p.endOnce.Do(func() { close(p.finished) })
	}()
	body()
}

// fallbackCheck re-runs the query under cvc5 and z3 5.x (fresh processes).
func (p *Path) fallbackCheck(assump *Term) (Result, string) {
	script := "(set-logic ALL)\n" + p.sol.Script(assump)
	f, err := os.CreateTemp("", "gosym-fallback-*.smt2")
	if err != nil {
		return Unknown, ""
	}
	defer os.Remove(f.Name())
	f.WriteString(script)
	f.Close()
	budget := p.eng.Opt.TimeoutMs / 1000 * 3
	if budget < 60 {
		budget = 60
	}
	for _, c := range [][]string{
		{"cvc5", "--incremental", fmt.Sprintf("--tlimit=%d", budget*1000), f.Name()},
		{"z3-new", fmt.Sprintf("-T:%d", budget), f.Name()},
	} {
		out, _ := exec.Command(c[0], c[1:]...).Output()
		txt := string(out)
		if strings.Contains(txt, "(error") {
			continue
		}
		lines := strings.Split(strings.TrimSpace(txt), "\n")
		switch lines[len(lines)-1] {
		case "unsat":
			return Unsat, c[0]
		case "sat":
			return Sat, c[0]
		}
	}
	return Unknown, ""
}

// maybeWitness extracts a concrete model of a completed path (every k-th path
// until the budget is used) so that the same inputs can be run natively.
func (p *Path) maybeWitness() {
	e := p.eng
	if e.Opt.Witnesses == 0 || e.Opt.Concrete {
		return
	}
	e.mu.Lock()
	take := e.witN < e.Opt.Witnesses && e.res.Paths%e.witStride() == 0
	if take {
		e.witN++
	}
	e.mu.Unlock()
	if !take {
		return
	}
	if p.check(p.ctx.True) != Sat {
		return
	}
	v := Violation{Harness: e.Opt.Harness, Notes: append([]string{}, p.covers...)}
	p.fillModel(&v)
	v.Trace = append([]int{}, p.trace...)
	p.witness = &v
}

func (e *Engine) witStride() int {
	// spread witnesses over the exploration: early paths densely, later ones sparsely
	switch {
	case e.witN < e.Opt.Witnesses/2:
		return 1
	default:
		return 7
	}
}
