package sym

import (
	"fmt"
	"go/types"
	"strings"

	"golang.org/x/tools/go/ssa"
)

type intrinsic func(p *Path, caller *frame, fn *ssa.Function, args []Value) Value

// nativeObj is an engine-side object handed to interpreted code as an opaque value.
type nativeObj struct {
	kind  string
	cells []*Term // vWin
	def   *Term
	name  string
	w     int
	// file-system model (fs.go)
	node  *fsNode
	under Value
	buf   []*Blob
	acc   *Term
}

func (o *nativeObj) call(p *Path, name string, args []Value) Value {
	if r, ok := o.callFS(p, name, args); ok {
		return r
	}
	p.unsupported("call %s on native %s", name, o.kind)
	return nil
}

const raftPkg = "github.com/hashicorp/raft"

var intrinsics = map[string]intrinsic{}

func reg(name string, f intrinsic) { intrinsics[name] = f }

func (p *Path) argStr(v Value) string {
	s, ok := p.strText(v.(StrV))
	if !ok {
		p.unsupported("intrinsic needs a constant string argument")
	}
	return s
}

func (p *Path) argInt(v Value) int {
	t := v.(*Term)
	if !t.IsConst() {
		p.unsupported("intrinsic needs a constant int argument")
	}
	return int(int64(t.C))
}

func (p *Path) base() *Term {
	if b, ok := p.ghost["__base"]; ok {
		return b.(*Term)
	}
	b := p.freshVar("base", 64)
	p.addInput("base#0", "u64", b)
	p.assume(p.ctx.Cmp(OpUlt, b, p.ctx.Const(64, 1<<61)))
	p.ghost["__base"] = b
	if !b.IsConst() {
		p.ctx.Base = b
	}
	return b
}

func init() {
	v := func(n string) string { return raftPkg + "." + n }
	mkInt := func(kind string, w int) intrinsic {
		return func(p *Path, _ *frame, _ *ssa.Function, args []Value) Value {
			name := p.argStr(args[0])
			k := p.varCount[name]
			t := p.freshVar(name, w)
			p.addInput(fmt.Sprintf("%s#%d", name, k), kind, t)
			return t
		}
	}
	reg(v("vU64"), mkInt("u64", 64))
	reg(v("vI64"), mkInt("i64", 64))
	reg(v("vInt"), mkInt("int", 64))
	reg(v("vU32"), mkInt("u32", 32))
	reg(v("vU8"), mkInt("u8", 8))
	reg(v("vBool"), mkInt("bool", 0))
	reg(v("vFail"), mkInt("fail", 0))
	reg(v("vStr"), func(p *Path, _ *frame, _ *ssa.Function, args []Value) Value {
		name := p.argStr(args[0])
		k := p.varCount[name]
		s := p.freshStr(name)
		in := Input{Name: fmt.Sprintf("%s#%d", name, k), Kind: "str", W: 32, term: s.ID}
		if !p.eng.Opt.Concrete {
			in.lenT = p.ctx.UF("slen", 32, s.ID)
		}
		p.inputs = append(p.inputs, in)
		return s
	})
	reg(v("vBlob"), func(p *Path, _ *frame, _ *ssa.Function, args []Value) Value {
		name := p.argStr(args[0])
		k := p.varCount[name]
		s := p.freshStr(name)
		nilv := p.freshVar(name+".nil", 0)
		// nil => empty
		p.assume(p.ctx.Implies(nilv, p.ctx.Eq(s.ID, p.ctx.Const(32, 0))))
		in := Input{Name: fmt.Sprintf("%s#%d", name, k), Kind: "blob", W: 32, term: s.ID}
		if !p.eng.Opt.Concrete {
			in.lenT = p.ctx.UF("slen", 32, s.ID)
		}
		p.inputs = append(p.inputs, in)
		p.inputs = append(p.inputs, Input{Name: fmt.Sprintf("%s.nil#%d", name, k), Kind: "bool", term: nilv})
		return &Blob{Nil: nilv, ID: s.ID}
	})
	reg(v("vChoose"), func(p *Path, _ *frame, _ *ssa.Function, args []Value) Value {
		name := p.argStr(args[0])
		lo, hi := p.argInt(args[1]), p.argInt(args[2])
		var k int
		if p.eng.Opt.Concrete {
			full := fmt.Sprintf("%s#%d", name, p.varCount[name])
			p.varCount[name]++
			if cv, ok := p.eng.Opt.ConcreteVals[full]; ok {
				k = int(cv) - lo
			} else {
				k = int(concreteDefault(p.eng.Opt.Seed, full, 64) % uint64(hi-lo+1))
			}
		} else {
			k = p.chooseConst(hi-lo+1, "choose:"+name)
		}
		t := p.ctx.Const(64, uint64(int64(lo+k)))
		n := p.varCount["choose:"+name]
		p.varCount["choose:"+name]++
		p.addInput(fmt.Sprintf("%s#%d", name, n), "choose", t)
		p.notes = append(p.notes, fmt.Sprintf("%s=%d", name, lo+k))
		return t
	})
	reg(v("vAssume"), func(p *Path, _ *frame, _ *ssa.Function, args []Value) Value {
		t := args[0].(*Term)
		if t.IsTrue() {
			return nil
		}
		if t.IsFalse() {
			p.end("ASSUMED-AWAY", "")
		}
		p.assume(t)
		if p.pos >= len(p.prefix) {
			p.pcDirty = true
		}
		return nil
	})
	reg(v("vAssert"), func(p *Path, caller *frame, _ *ssa.Function, args []Value) Value {
		where := ""
		if caller != nil {
			where = caller.fn.Name()
		}
		p.doAssert(args[0].(*Term), p.argStr(args[1]), where)
		return nil
	})
	reg(v("vCover"), func(p *Path, _ *frame, _ *ssa.Function, args []Value) Value {
		p.ensureFeasible()
		p.covers = append(p.covers, p.argStr(args[0]))
		return nil
	})
	reg(v("vReach"), intrinsics[v("vCover")])
	reg(v("vNote"), func(p *Path, _ *frame, _ *ssa.Function, args []Value) Value {
		p.notes = append(p.notes, p.argStr(args[0]))
		return nil
	})
	reg(v("vAnd"), func(p *Path, _ *frame, _ *ssa.Function, args []Value) Value {
		return p.ctx.And(args[0].(*Term), args[1].(*Term))
	})
	reg(v("vOr"), func(p *Path, _ *frame, _ *ssa.Function, args []Value) Value {
		return p.ctx.Or(args[0].(*Term), args[1].(*Term))
	})
	reg(v("vImplies"), func(p *Path, _ *frame, _ *ssa.Function, args []Value) Value {
		return p.ctx.Implies(args[0].(*Term), args[1].(*Term))
	})
	reg(v("vIte64"), func(p *Path, _ *frame, _ *ssa.Function, args []Value) Value {
		return p.ctx.Ite(args[0].(*Term), args[1].(*Term), args[2].(*Term))
	})
	reg(v("vIteBool"), intrinsics[v("vIte64")])
	reg(v("vIteStr"), func(p *Path, _ *frame, _ *ssa.Function, args []Value) Value {
		return StrV{p.ctx.Ite(args[0].(*Term), args[1].(StrV).ID, args[2].(StrV).ID)}
	})
	reg(v("vStrEq"), func(p *Path, _ *frame, _ *ssa.Function, args []Value) Value {
		return p.strEq(args[0].(StrV), args[1].(StrV))
	})
	reg(v("vBlobEq"), func(p *Path, _ *frame, _ *ssa.Function, args []Value) Value {
		return p.ctx.Eq(args[0].(*Blob).ID, args[1].(*Blob).ID)
	})
	reg(v("vBlobIsNil"), func(p *Path, _ *frame, _ *ssa.Function, args []Value) Value {
		return args[0].(*Blob).Nil
	})
	reg(v("vB2U"), func(p *Path, _ *frame, _ *ssa.Function, args []Value) Value {
		return p.ctx.BoolToBV(args[0].(*Term), 64)
	})
	reg(v("vBaseAlign12"), func(p *Path, _ *frame, _ *ssa.Function, args []Value) Value {
		b := p.base()
		if b.IsConst() {
			return nil
		}
		c := p.ctx
		q := p.freshVar("base.q", 64)
		p.assume(c.Cmp(OpUlt, q, c.Const(64, 1<<58)))
		p.assume(c.Eq(b, c.Bin(OpMul, q, c.Const(64, 12))))
		c.BaseAlign = 12
		return nil
	})
	reg(v("vBase"), func(p *Path, _ *frame, _ *ssa.Function, args []Value) Value { return p.base() })
	reg(v("vWinNew"), func(p *Path, _ *frame, _ *ssa.Function, args []Value) Value {
		name := p.argStr(args[0])
		w := p.argInt(args[1])
		bits := p.argInt(args[2])
		o := &nativeObj{kind: "win", name: name, w: bits}
		o.def = p.ctx.Const(bits, 0)
		for k := 1; k <= w; k++ {
			cn := fmt.Sprintf("%s[%d]", name, k)
			n := p.varCount[cn]
			t := p.freshVar(cn, bits)
			p.addInput(fmt.Sprintf("%s#%d", cn, n), "cell", t)
			o.cells = append(o.cells, t)
		}
		return o
	})
	winGet := func(p *Path, _ *frame, _ *ssa.Function, args []Value) Value {
		o := args[0].(*nativeObj)
		i := args[1].(*Term)
		r := o.def
		for k := len(o.cells); k >= 1; k-- {
			at := p.ctx.Eq(i, p.ctx.Bin(OpAdd, p.base(), p.ctx.Const(64, uint64(k))))
			r = p.ctx.Ite(at, o.cells[k-1], r)
		}
		return r
	}
	winSet := func(p *Path, _ *frame, _ *ssa.Function, args []Value) Value {
		o := args[0].(*nativeObj)
		i := args[1].(*Term)
		val := args[2].(*Term)
		in := p.ctx.False
		ats := make([]*Term, len(o.cells))
		for k := 1; k <= len(o.cells); k++ {
			ats[k-1] = p.ctx.Eq(i, p.ctx.Bin(OpAdd, p.base(), p.ctx.Const(64, uint64(k))))
			in = p.ctx.Or(in, ats[k-1])
		}
		if !p.branch(in, "window-write") {
			p.end("WINDOW", "write outside the window of "+o.name)
		}
		for k := range o.cells {
			o.cells[k] = p.ctx.Ite(ats[k], val, o.cells[k])
		}
		return nil
	}
	for _, t := range []string{"vWin64", "vWin8", "vWinB", "vWin32"} {
		reg("(*"+raftPkg+"."+t+").Get", winGet)
		reg("(*"+raftPkg+"."+t+").Set", winSet)
	}
	reg("(*"+raftPkg+".vWin64).In", func(p *Path, _ *frame, _ *ssa.Function, args []Value) Value {
		o := args[0].(*nativeObj)
		i := args[1].(*Term)
		in := p.ctx.False
		for k := 1; k <= len(o.cells); k++ {
			in = p.ctx.Or(in, p.ctx.Eq(i, p.ctx.Bin(OpAdd, p.base(), p.ctx.Const(64, uint64(k)))))
		}
		return in
	})
	reg("(*"+raftPkg+".vWin64).Clone", func(p *Path, _ *frame, _ *ssa.Function, args []Value) Value {
		o := args[0].(*nativeObj)
		n := &nativeObj{kind: "win", name: o.name + "'", w: o.w, def: o.def}
		n.cells = append(n.cells, o.cells...)
		return n
	})
	// blob <-> 64-bit cell: low 32 bits content id, bit 32 nil flag
	reg(v("vBlobFromCell"), func(p *Path, _ *frame, _ *ssa.Function, args []Value) Value {
		c := p.ctx
		x := args[0].(*Term)
		id := c.Extract(x, 31, 0)
		nilv := c.And(c.Eq(c.Extract(x, 32, 32), c.Const(1, 1)), c.Eq(id, c.Const(32, 0)))
		if !id.IsConst() {
			l := c.UF("slen", 32, id)
			z := c.Const(32, 0)
			p.assume(c.Eq(c.Eq(l, z), c.Eq(id, z)))
			p.assume(c.Cmp(OpUlt, l, c.Const(32, 1<<20)))
		}
		return &Blob{Nil: nilv, ID: id}
	})
	reg(v("vBlobToCell"), func(p *Path, _ *frame, _ *ssa.Function, args []Value) Value {
		c := p.ctx
		b := args[0].(*Blob)
		return c.Bin(OpBOr, c.ZExt(b.ID, 64), c.Bin(OpShl, c.BoolToBV(b.Nil, 64), c.Const(64, 32)))
	})
	reg(v("vStrFromCell"), func(p *Path, _ *frame, _ *ssa.Function, args []Value) Value {
		c := p.ctx
		id := c.Extract(args[0].(*Term), 31, 0)
		if !id.IsConst() {
			l := c.UF("slen", 32, id)
			z := c.Const(32, 0)
			p.assume(c.Eq(c.Eq(l, z), c.Eq(id, z)))
			p.assume(c.Cmp(OpUlt, l, c.Const(32, 1<<20)))
		}
		return StrV{id}
	})
	reg(v("vStrToCell"), func(p *Path, _ *frame, _ *ssa.Function, args []Value) Value {
		return p.ctx.ZExt(args[0].(StrV).ID, 64)
	})
	// abstract bijection for encoded configurations (msgpack itself is never executed)
	encCfg := func(p *Path, _ *frame, _ *ssa.Function, args []Value) Value {
		s := p.freshStr("cfgenc")
		p.assume(p.ctx.Not(p.ctx.Eq(s.ID, p.ctx.Const(32, 0))))
		p.payload[s.ID] = deepCopy(args[0])
		return &Blob{Nil: p.ctx.False, ID: s.ID}
	}
	reg(raftPkg+".EncodeConfiguration", encCfg)
	reg(v("vEncodeConfiguration"), encCfg)
	reg(raftPkg+".DecodeConfiguration", func(p *Path, _ *frame, _ *ssa.Function, args []Value) Value {
		b := args[0].(*Blob)
		leaf := p.resolveIte(b.ID)
		if v, ok := p.payload[leaf]; ok {
			return deepCopy(v)
		}
		if h, ok := p.ghost["__malformed"]; ok && h.(*Term) == leaf {
			panic(goPanic{p.mkRuntimeError("failed to decode configuration (malformed)")})
		}
		p.unsupported("DecodeConfiguration of a blob without registered payload: %s", leaf)
		return nil
	})
	reg(v("vRunUntilBlocked"), func(p *Path, caller *frame, _ *ssa.Function, args []Value) Value {
		f := args[0]
		p.runUntilBlocked("vRun", func() { p.call(nil, f, nil) })
		return nil
	})
	reg(v("vGo"), func(p *Path, caller *frame, _ *ssa.Function, args []Value) Value {
		f := args[0]
		p.spawn("vGo", func() { p.call(nil, f, nil) })
		return nil
	})
	reg(v("vQuiesce"), func(p *Path, caller *frame, _ *ssa.Function, args []Value) Value {
		p.quiesce(p.cur)
		return nil
	})
	reg(v("vSpawnPolicy"), func(p *Path, _ *frame, _ *ssa.Function, args []Value) Value {
		p.spawnRun = args[0].(*Term).IsTrue()
		return nil
	})
	reg(v("vGoAllow"), func(p *Path, _ *frame, _ *ssa.Function, args []Value) Value {
		l, _ := p.ghost["__goallow"].([]string)
		p.ghost["__goallow"] = append(l, p.argStr(args[0]))
		return nil
	})
	reg(v("vTimerMode"), func(p *Path, _ *frame, _ *ssa.Function, args []Value) Value {
		p.timers["default"] = p.argInt(args[0])
		return nil
	})
	reg(v("vTimerFor"), func(p *Path, _ *frame, _ *ssa.Function, args []Value) Value {
		p.timers[p.argStr(args[0])] = p.argInt(args[1])
		return nil
	})
	reg(v("vIOCopyN"), func(p *Path, _ *frame, _ *ssa.Function, args []Value) Value {
		if n, ok := p.ghost[fmt.Sprintf("__iocopy#%d", p.argInt(args[0]))]; ok {
			return n
		}
		return p.ctx.Const(64, ^uint64(0))
	})
	reg(v("vVolatile"), func(p *Path, _ *frame, _ *ssa.Function, args []Value) Value {
		ptr := args[0].(*Value)
		if p.volatile == nil {
			p.volatile = map[*Value]bool{}
		}
		p.volatile[ptr] = true
		return nil
	})
	reg(v("vMapPerm"), func(p *Path, _ *frame, _ *ssa.Function, args []Value) Value {
		p.mapPerm = args[0].(*Term).IsTrue()
		return nil
	})
	reg(v("vAssertNoPanic"), func(p *Path, _ *frame, _ *ssa.Function, args []Value) Value {
		p.ghost["__nopanic"] = p.argStr(args[0])
		return nil
	})
	reg(v("vAssertNoDeadlock"), func(p *Path, _ *frame, _ *ssa.Function, args []Value) Value {
		p.ghost["__nodeadlock"] = p.argStr(args[0])
		return nil
	})
	reg(v("vTime"), func(p *Path, _ *frame, _ *ssa.Function, args []Value) Value {
		name := p.argStr(args[0])
		k := p.varCount[name]
		t := p.freshVar(name, 64)
		p.addInput(fmt.Sprintf("%s#%d", name, k), "i64", t)
		p.assume(p.ctx.Cmp(OpSlt, p.ctx.Const(64, 0), t))
		p.assume(p.ctx.Cmp(OpSlt, t, p.ctx.Const(64, 1<<61)))
		return timeVal(p, t)
	})
	reg(v("vTimeNs"), func(p *Path, _ *frame, _ *ssa.Function, args []Value) Value { return timeNs(args[0]) })
	reg(v("vLastTimerDuration"), func(p *Path, _ *frame, _ *ssa.Function, args []Value) Value {
		if d, ok := p.ghost["__lastTimerDur"]; ok {
			return d.(*Term)
		}
		return p.ctx.Const(64, 0)
	})
	reg(v("vLastNow"), func(p *Path, _ *frame, _ *ssa.Function, args []Value) Value {
		if p.lastNow == nil {
			return p.ctx.Const(64, 0)
		}
		return p.lastNow
	})
	reg(v("vNoIOFaults"), func(p *Path, _ *frame, _ *ssa.Function, args []Value) Value {
		p.ghost["__noiofaults"] = true
		return nil
	})
	reg(v("vIOSize"), func(p *Path, _ *frame, _ *ssa.Function, args []Value) Value {
		p.ghost["__iosize"] = args[0].(*Term)
		return nil
	})
	reg(v("vFSCrashAt"), func(p *Path, _ *frame, _ *ssa.Function, args []Value) Value {
		p.fs().crashAt = p.argInt(args[0])
		return nil
	})
	reg(v("vFSOps"), func(p *Path, _ *frame, _ *ssa.Function, args []Value) Value {
		return p.ctx.Const(64, uint64(p.fs().ops))
	})
	reg(v("vFSCrashed"), func(p *Path, _ *frame, _ *ssa.Function, args []Value) Value {
		return p.ctx.Bool(p.fs().crashed)
	})
	reg(v("vFSApplyCrash"), func(p *Path, _ *frame, _ *ssa.Function, args []Value) Value {
		p.fsApplyCrash()
		return nil
	})
	reg(v("vFSMkdirAll"), func(p *Path, _ *frame, _ *ssa.Function, args []Value) Value {
		p.fsMkdirAll(p.argStr(args[0]))
		f := p.fs()
		// make the whole tree durable (pre-existing state)
		var walk func(n *fsNode)
		walk = func(n *fsNode) {
			if n.isDir {
				f.syncDir(n)
				for _, c := range n.children {
					walk(c)
				}
			}
		}
		walk(f.root)
		return nil
	})
	reg(v("vFSCorruptFile"), func(p *Path, _ *frame, _ *ssa.Function, args []Value) Value {
		n := p.fs().lookup(p.argStr(args[0]))
		if n == nil || n.isDir {
			return p.ctx.False
		}
		t := p.freshStr("corrupt")
		n.content = t.ID
		n.durable = t.ID
		return p.ctx.True
	})
	reg(v("vFSSyncAll"), func(p *Path, _ *frame, _ *ssa.Function, args []Value) Value {
		f := p.fs()
		var walk func(n *fsNode)
		walk = func(n *fsNode) {
			if n.isDir {
				f.syncDir(n)
				for _, c := range n.children {
					walk(c)
				}
			} else {
				n.durable = n.content
				n.dirty = false
			}
		}
		walk(f.root)
		return nil
	})
	reg(v("vBlobID"), func(p *Path, _ *frame, _ *ssa.Function, args []Value) Value {
		return p.ctx.ZExt(args[0].(*Blob).ID, 64)
	})
	reg(raftPkg+".snapshotName", func(p *Path, _ *frame, _ *ssa.Function, args []Value) Value {
		f := p.fs()
		f.nextSnap++
		return p.strConst(fmt.Sprintf("snap-%d", f.nextSnap))
	})
	reg(raftPkg+".encodePeers", func(p *Path, _ *frame, _ *ssa.Function, args []Value) Value {
		return &Blob{Nil: p.ctx.False, ID: p.ctx.Const(32, 0)}
	})
	reg(v("vTier"), func(p *Path, _ *frame, _ *ssa.Function, args []Value) Value {
		return p.ctx.Const(64, uint64(p.eng.Opt.Tier))
	})
	reg(v("vIsSymbolic"), func(p *Path, _ *frame, _ *ssa.Function, args []Value) Value { return p.ctx.True })
	reg(v("vCatch"), func(p *Path, caller *frame, _ *ssa.Function, args []Value) (res Value) {
		// runs f; returns true if it panicked (Go panic in interpreted code)
		res = p.ctx.False
		func() {
			defer func() {
				if r := recover(); r != nil {
					if gp, ok := r.(goPanic); ok {
						p.notes = append(p.notes, "caught panic: "+p.describe(gp.v))
						res = p.ctx.True
						return
					}
					panic(r)
				}
			}()
			p.call(caller, args[0], nil)
		}()
		return res
	})

	// ---- raft-internal functions that are stubbed (listed in evidence) ----
	noop := func(p *Path, _ *frame, fn *ssa.Function, args []Value) Value { return p.zeroResult(fn) }
	for _, n := range []string{
		"(*" + raftPkg + ".Raft).observe",
		raftPkg + ".emitLogStoreMetrics",
		raftPkg + ".startSnapshotRestoreMonitor",
		"(*" + raftPkg + ".snapshotRestoreMonitor).StopAndWait",
		"(*" + raftPkg + ".saturationMetric).sleeping",
		"(*" + raftPkg + ".saturationMetric).working",
		"(*" + raftPkg + ".followerReplication).setLastContact.metrics",
		"(*" + raftPkg + ".Raft).setLeader.observe",
		raftPkg + ".newSaturationMetric",
	} {
		reg(n, noop)
	}
}

// resolveIte forks until the term is not an if-then-else.
func (p *Path) resolveIte(t *Term) *Term {
	for t.Op == OpIte {
		if p.branch(t.Args[0], "resolve-ite") {
			t = t.Args[1]
		} else {
			t = t.Args[2]
		}
	}
	return t
}

// deepCopy copies slices as well (used for payloads).
func deepCopy(v Value) Value {
	switch x := v.(type) {
	case Struct:
		n := make(Struct, len(x))
		for i, f := range x {
			n[i] = deepCopy(f)
		}
		return n
	case Array:
		n := make(Array, len(x))
		for i, f := range x {
			n[i] = deepCopy(f)
		}
		return n
	case SliceV:
		if x == nil {
			return x
		}
		n := make(SliceV, len(x))
		for i, f := range x {
			n[i] = deepCopy(f)
		}
		return n
	}
	return v
}

// resultFor returns zero results for a call-common.
func (p *Path) zeroForSig(sig *types.Signature) Value {
	res := sig.Results()
	switch res.Len() {
	case 0:
		return nil
	case 1:
		return p.zero(res.At(0).Type())
	}
	return p.zero(res)
}

// stubInterface intercepts interface method calls on stubbed interfaces.
func (p *Path) stubInterface(cc *ssa.CallCommon, recv Iface, args []Value) (Value, bool) {
	t := cc.Value.Type()
	if n, ok := t.(*types.Named); ok && n.Obj().Pkg() != nil {
		switch n.Obj().Pkg().Path() + "." + n.Obj().Name() {
		case "github.com/hashicorp/go-hclog.Logger":
			p.stubs["hclog.Logger.*"]++
			return p.zeroForSig(cc.Signature()), true
		}
	}
	return nil, false
}

func timeVal(p *Path, ns *Term) Value {
	return Struct{p.ctx.Const(64, 0), ns, (*Value)(nil)}
}

func timeNs(v Value) *Term { return v.(Struct)[1].(*Term) }

func (p *Path) now() *Term {
	k := p.nowCount
	p.nowCount++
	t := p.freshVar("now", 64)
	p.addInput(fmt.Sprintf("now#%d", k), "i64", t)
	c := p.ctx
	// 0 < now < 2^61, monotone
	p.assume(c.Cmp(OpSlt, c.Const(64, 0), t))
	p.assume(c.Cmp(OpSlt, t, c.Const(64, 1<<61)))
	if p.lastNow != nil {
		p.assume(c.Cmp(OpSle, p.lastNow, t))
	}
	p.lastNow = t
	return t
}

func (p *Path) newTimerChan(label string) *Chan {
	label = label + "@" + p.callerName
	ch := p.makeChan(timeType(p), 1, "timer:"+label)
	mode := p.timers["default"]
	// per-call-site policies (vTimerFor): the longest matching key wins
	best := -1
	for k, m := range p.timers {
		if k != "default" && strings.Contains(label, k) && len(k) > best {
			best, mode = len(k), m
		}
	}
	fire := false
	switch mode {
	case 3: // the next timer fires, later ones do not
		fire = true
		if best < 0 {
			p.timers["default"] = 0
		}
	case 4: // elapses only when nothing else in the system can make progress
		p.lateTimers = append(p.lateTimers, ch)
	case 1:
		fire = true
	case 2:
		fire = p.chooseConst(2, "timer:"+label) == 1
		if fire {
			p.notes = append(p.notes, "timer-fired:"+label)
		}
	}
	if fire {
		ch.Buf = append(ch.Buf, timeVal(p, p.now()))
	}
	return ch
}

func timeType(p *Path) types.Type {
	if pkg := p.eng.Prog.ImportedPackage("time"); pkg != nil {
		return pkg.Type("Time").Type()
	}
	return types.Typ[types.Int64]
}

// stubByPackage handles functions of dependency packages.
func (p *Path) stubByPackage(pp string, fn *ssa.Function, args []Value) (Value, bool) {
	c := p.ctx
	name := fn.String()
	switch pp {
	case "github.com/hashicorp/go-metrics", "github.com/armon/go-metrics", "github.com/hashicorp/go-metrics/compat", "github.com/hashicorp/go-hclog":
		return p.zeroResult(fn), true
	case "fmt":
		switch fn.Name() {
		case "Sprintf", "Sprint", "Sprintln":
			return p.freshStr("fmt"), true
		case "Errorf":
			if sv, ok := args[0].(StrV); ok {
				if txt, ok := p.strText(sv); ok {
					p.notes = append(p.notes, "fmt.Errorf: "+txt)
				}
			}
			return p.newError(p.freshStr("errorf")), true
		case "Printf", "Println", "Print", "Fprintf", "Fprintln":
			return p.zeroResult(fn), true
		}
	case "errors":
		switch fn.Name() {
		case "Is":
			return p.equalTerm(args[0], args[1]), true
		}
		return nil, false
	case "bytes":
		switch fn.Name() {
		case "Equal":
			a, b := args[0].(*Blob), args[1].(*Blob)
			return c.Eq(a.ID, b.ID), true
		}
	case "sync":
		switch name {
		case "(*sync.Mutex).Lock", "(*sync.Mutex).Unlock", "(*sync.RWMutex).Lock", "(*sync.RWMutex).Unlock",
			"(*sync.RWMutex).RLock", "(*sync.RWMutex).RUnlock", "(*sync.WaitGroup).Add", "(*sync.WaitGroup).Done":
			return nil, true
		case "(*sync.WaitGroup).Wait":
			return nil, true
		case "(*sync.Mutex).TryLock":
			return c.True, true
		case "(*sync.Once).Do":
			slot := args[0].(*Value)
			if _, done := p.sideTab[slot]; !done {
				p.sideTab[slot] = true
				p.call(nil, args[1], nil)
			}
			return nil, true
		}
	case "sync/atomic":
		return p.atomicStub(fn, args)
	case "time":
		return p.timeStub(fn, args)
	case "sort":
		switch fn.Name() {
		case "Sort", "Stable":
			p.sortIntrinsic(args[0].(Iface))
			return nil, true
		}
		return nil, false
	case "math/rand", "crypto/rand":
		switch fn.Name() {
		case "Int63", "Int63n", "Int", "Intn", "Int31n":
			r := p.freshVar("rand", 64)
			p.assume(c.Cmp(OpSle, c.Const(64, 0), r))
			if len(args) == 1 {
				p.assume(c.Cmp(OpSlt, r, args[0].(*Term)))
			}
			return r, true
		case "Read":
			return Tuple{p.lenOf(args[0]), Iface{}}, true
		}
	case "container/list", "strconv", "unicode/utf8", "math/bits", "math":
		return nil, false
	case "io":
		switch fn.Name() {
		case "Copy", "CopyN":
			return p.ioCopy(fn, args), true
		}
		return nil, false
	case "context":
		return nil, false
	case "runtime":
		return p.zeroResult(fn), true
	case "strings":
		switch fn.Name() {
		case "Contains", "HasPrefix", "HasSuffix":
			a, ok1 := p.strText(args[0].(StrV))
			b, ok2 := p.strText(args[1].(StrV))
			if ok1 && ok2 {
				switch fn.Name() {
				case "Contains":
					return c.Bool(strings.Contains(a, b)), true
				case "HasPrefix":
					return c.Bool(strings.HasPrefix(a, b)), true
				default:
					return c.Bool(strings.HasSuffix(a, b)), true
				}
			}
			// opaque (formatted) text never contains a marker constant
			return c.False, true
		}
		if r, ok := p.fsStub(fn, args); ok {
			return r, true
		}
	case "os", "path/filepath", "bufio", "encoding/json", "hash/crc64", "hash", "io/ioutil":
		if r, ok := p.fsStub(fn, args); ok {
			return r, true
		}
		if pp != "hash" {
			p.unsupported("file-system model: %s", fn.String())
		}
	}
	if fn.Blocks == nil {
		return nil, false
	}
	// default for other dependency packages: run real SSA
	return nil, false
}

func (p *Path) newError(msg StrV) Value {
	pkg := p.eng.Prog.ImportedPackage("errors")
	if pkg == nil {
		p.unsupported("errors package not loaded")
	}
	return p.call(nil, pkg.Func("New"), []Value{msg})
}

func (p *Path) atomicStub(fn *ssa.Function, args []Value) (Value, bool) {
	c := p.ctx
	n := fn.Name()
	recvIsStruct := fn.Signature.Recv() != nil
	// slot of the underlying value
	slotOf := func() *Value {
		ptr := args[0].(*Value)
		if ptr == nil {
			panic(goPanic{p.mkRuntimeError("atomic op on nil pointer")})
		}
		if recvIsStruct {
			// atomic.Uint64{_ noCopy; _ align64; v uint64}, atomic.Bool{_ noCopy; v uint32}, atomic.Value{v any}
			st := (*ptr).(Struct)
			return &st[len(st)-1]
		}
		return ptr
	}
	isBool := strings.HasPrefix(fn.String(), "(*sync/atomic.Bool)")
	isValue := strings.HasPrefix(fn.String(), "(*sync/atomic.Value)")
	switch {
	case strings.HasPrefix(n, "Load"):
		s := slotOf()
		if p.volatile[s] && !isValue {
			// another goroutine may have changed the cell since the last access: every load reads a fresh 0/1
			cur := (*s).(*Term)
			fv := p.freshVar("volatile.load", cur.W)
			k := p.varCount["volatile.load"] - 1
			p.addInput(fmt.Sprintf("volatile.load#%d", k), fmt.Sprintf("u%d", cur.W), fv)
			p.assume(c.Cmp(OpUle, fv, c.Const(cur.W, 1)))
			*s = fv
		}
		if isValue {
			if v, ok := p.sideTab[s]; ok {
				return v, true
			}
			return Iface{}, true
		}
		if isBool {
			return c.Not(c.Eq((*s).(*Term), c.Const(32, 0))), true
		}
		return copyVal(*s), true
	case strings.HasPrefix(n, "Store"):
		s := slotOf()
		if isValue {
			p.sideTab[s] = args[1]
			return nil, true
		}
		if isBool {
			*s = c.BoolToBV(args[1].(*Term), 32)
			return nil, true
		}
		*s = copyVal(args[1])
		return nil, true
	case strings.HasPrefix(n, "Add"):
		s := slotOf()
		nv := c.Bin(OpAdd, (*s).(*Term), args[1].(*Term))
		*s = nv
		return nv, true
	case strings.HasPrefix(n, "Swap"):
		s := slotOf()
		old := copyVal(*s)
		if isBool {
			o := c.Not(c.Eq((*s).(*Term), c.Const(32, 0)))
			*s = c.BoolToBV(args[1].(*Term), 32)
			return o, true
		}
		*s = copyVal(args[1])
		return old, true
	case strings.HasPrefix(n, "CompareAndSwap"):
		s := slotOf()
		var eq *Term
		if isBool {
			cur := c.Not(c.Eq((*s).(*Term), c.Const(32, 0)))
			eq = c.Eq(cur, args[1].(*Term))
		} else {
			eq = p.equalTerm(*s, args[1])
		}
		if p.branch(eq, "cas") {
			if isBool {
				*s = c.BoolToBV(args[2].(*Term), 32)
			} else {
				*s = copyVal(args[2])
			}
			return c.True, true
		}
		return c.False, true
	}
	return nil, false
}

func (p *Path) timeStub(fn *ssa.Function, args []Value) (Value, bool) {
	c := p.ctx
	switch fn.String() {
	case "time.Now":
		return timeVal(p, p.now()), true
	case "time.Since":
		return c.Bin(OpSub, p.now(), timeNs(args[0])), true
	case "time.Until":
		return c.Bin(OpSub, timeNs(args[0]), p.now()), true
	case "(time.Time).Sub":
		return c.Bin(OpSub, timeNs(args[0]), timeNs(args[1])), true
	case "(time.Time).Add":
		return timeVal(p, c.Bin(OpAdd, timeNs(args[0]), args[1].(*Term))), true
	case "(time.Time).IsZero":
		return c.Eq(timeNs(args[0]), c.Const(64, 0)), true
	case "(time.Time).After":
		return c.Cmp(OpSlt, timeNs(args[1]), timeNs(args[0])), true
	case "(time.Time).Before":
		return c.Cmp(OpSlt, timeNs(args[0]), timeNs(args[1])), true
	case "(time.Time).Equal":
		return c.Eq(timeNs(args[0]), timeNs(args[1])), true
	case "(time.Time).UnixNano", "(time.Time).UnixMilli", "(time.Time).Unix":
		return timeNs(args[0]), true
	case "(time.Time).UTC", "(time.Time).Local", "(time.Time).Round", "(time.Time).Truncate":
		return args[0], true
	case "(time.Time).String", "(time.Time).Format":
		return p.freshStr("timefmt"), true
	case "time.After":
		if d, ok := args[0].(*Term); ok {
			p.ghost["__lastTimerDur"] = d
		}
		return p.newTimerChan("After"), true
	case "time.Sleep":
		return nil, true
	case "time.NewTimer", "time.AfterFunc", "time.NewTicker", "time.Tick":
		p.unsupported("%s", fn.String())
	case "(time.Duration).String":
		return p.freshStr("durfmt"), true
	}
	if strings.HasPrefix(fn.String(), "(time.Duration).") {
		return nil, false // pure arithmetic: real SSA
	}
	p.unsupported("time function %s", fn.String())
	return nil, true
}

func (p *Path) sortIntrinsic(x Iface) {
	n := p.call(nil, &BoundMethod{Recv: x, Name: "Len"}, nil).(*Term)
	if !n.IsConst() {
		p.unsupported("sort of symbolic length")
	}
	ln := int(n.C)
	if ln > 8 {
		p.unsupported("sort of %d elements (bound 8)", ln)
	}
	ci := func(i int) Value { return p.ctx.Const(64, uint64(i)) }
	// insertion sort through the value's own Less/Swap
	for i := 1; i < ln; i++ {
		for j := i; j > 0; j-- {
			less := p.call(nil, &BoundMethod{Recv: x, Name: "Less"}, []Value{ci(j), ci(j - 1)}).(*Term)
			if !p.branch(less, "sort.Less") {
				break
			}
			p.call(nil, &BoundMethod{Recv: x, Name: "Swap"}, []Value{ci(j), ci(j - 1)})
		}
	}
}

func (p *Path) ioCopy(fn *ssa.Function, args []Value) Value {
	// reading a modelled file: the whole content goes to the destination
	if src, ok := args[1].(Iface); ok {
		if o, ok := src.V.(*nativeObj); ok && o.kind == "file" {
			b := &Blob{Nil: p.ctx.False, ID: o.node.content}
			if fn.Name() == "CopyN" {
				// at most n bytes: exactly the file (n == size), the whole file and io.EOF (n > size),
				// or a proper prefix of the content (n < size)
				c := p.ctx
				n := args[2].(*Term)
				size := p.lenOf(b)
				if p.branch(c.Eq(n, size), "io.CopyN n == size") {
					p.writeTo(args[0], b)
					return Tuple{size, Iface{}}
				}
				if p.branch(c.Cmp(OpSlt, size, n), "io.CopyN n > size") {
					p.writeTo(args[0], b)
					return Tuple{size, p.newError(p.strConst("EOF"))}
				}
				pre := c.UF("prefix", 32, o.node.content, n)
				p.assume(c.Eq(c.ZExt(c.UF("slen", 32, pre), 64), n))
				p.assume(c.Eq(c.Eq(pre, c.Const(32, 0)), c.Eq(n, c.Const(64, 0))))
				pb := &Blob{Nil: c.False, ID: pre}
				p.writeTo(args[0], pb)
				return Tuple{n, Iface{}}
			}
			p.writeTo(args[0], b)
			return Tuple{p.lenOf(b), Iface{}}
		}
	}
	// moves a symbolic byte count with a symbolic error
	n := p.freshVar("io.copy.n", 64)
	k := p.varCount["io.copy.n"] - 1
	p.addInput(fmt.Sprintf("io.copy.n#%d", k), "i64", n)
	p.assume(p.ctx.Cmp(OpSle, p.ctx.Const(64, 0), n))
	fail := p.freshVar("io.copy.fail", 0)
	p.addInput(fmt.Sprintf("io.copy.fail#%d", k), "fail", fail)
	if _, ok := p.ghost["__noiofaults"]; ok {
		p.assume(p.ctx.Not(fail))
		fail = p.ctx.False
		// a faithful stream delivers exactly the announced size when the harness said so
		if sz, ok := p.ghost["__iosize"]; ok && k == 0 {
			p.assume(p.ctx.Eq(n, sz.(*Term)))
		}
	}
	var err Value = Iface{}
	if p.branch(fail, "io.Copy error") {
		err = p.newError(p.strConst("io.Copy failed (injected)"))
	}
	p.ghost[fmt.Sprintf("__iocopy#%d", k)] = n
	// tell a model sink/reader about the transfer
	if h, ok := p.ghost["__iocopy"]; ok {
		p.call(nil, h, []Value{args[0], args[1], n})
	}
	return Tuple{n, err}
}

