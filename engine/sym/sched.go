package sym

import (
	"fmt"
	"go/types"
)

const (
	gRunnable = iota
	gParked
	gDone
)

// G is an interpreted goroutine, backed by a real goroutine; exactly one G
// runs at any time (baton passing through resume channels).
type G struct {
	id      int
	name    string
	resume  chan struct{}
	state   int
	wait    []selCase
	wakeIdx int
	wakeVal Value
	wakeOk  bool
	lowPrio bool // harness goroutine waiting for quiescence
	started bool
	body    func()
	depth   int
}

type selCase struct {
	ch   *Chan
	send bool
	val  Value
}

func (p *Path) newG(name string) *G {
	g := &G{id: len(p.gs), name: name, resume: make(chan struct{}, 1)}
	p.gs = append(p.gs, g)
	return g
}

// spawn registers a new goroutine; it becomes runnable but does not run until
// the current one blocks.
func (p *Path) spawn(name string, body func()) *G {
	g := p.newG(name)
	g.body = body
	return g
}

func (p *Path) startG(g *G) {
	g.started = true
	go p.goMain(g, func() {
		p.waitResume(g)
		g.body()
		p.gExit(g)
	})
}

func (p *Path) waitResume(g *G) {
	select {
	case <-g.resume:
		p.cur = g
	case <-p.kill:
		panic(killed{})
	}
}

// pickNext returns the next runnable goroutine other than cur (or nil).
func (p *Path) pickNext(cur *G) *G {
	var low *G
	for _, g := range p.gs {
		if g == cur || g.state != gRunnable {
			continue
		}
		if g.lowPrio {
			if low == nil {
				low = g
			}
			continue
		}
		return g
	}
	return low
}

func (p *Path) handOff(next *G) {
	if !next.started && next.body != nil {
		p.startG(next)
	}
	next.resume <- struct{}{}
}

// park blocks the current goroutine until it is made runnable and scheduled.
func (p *Path) park(g *G) {
	g.state = gParked
	p.yieldFrom(g)
}

// yieldFrom hands the baton to another runnable goroutine and waits.
func (p *Path) yieldFrom(g *G) {
	next := p.pickNext(g)
	if next == nil {
		if g.state == gRunnable {
			return // nothing else to run; continue
		}
		p.deadlock()
	}
	p.handOff(next)
	p.waitResume(g)
}

func (p *Path) deadlock() {
	desc := ""
	for _, g := range p.gs {
		if g.state == gParked {
			desc += fmt.Sprintf("[g%d %s waits %s] ", g.id, g.name, describeWait(g.wait))
		}
	}
	if id, ok := p.ghost["__nodeadlock"]; ok {
		p.violationNow(id.(string), "deadlock: "+desc)
	}
	p.end("DEADLOCK", desc)
}

func describeWait(cs []selCase) string {
	s := ""
	for _, c := range cs {
		d := "recv"
		if c.send {
			d = "send"
		}
		l := "nil"
		if c.ch != nil {
			l = c.ch.Label
		}
		s += d + ":" + l + " "
	}
	return s
}

func (p *Path) gExit(g *G) {
	g.state = gDone
	next := p.pickNext(g)
	if next == nil {
		p.deadlock()
	}
	p.handOff(next)
}

// runUntilBlocked runs f as a goroutine and returns when every other goroutine
// is parked or done.
func (p *Path) runUntilBlocked(name string, body func()) {
	me := p.cur
	p.spawn(name, body)
	p.quiesce(me)
}

// quiesce lets every other runnable goroutine run until all are blocked.
func (p *Path) quiesce(me *G) {
	me.lowPrio = true
	for {
		next := p.pickNext(me)
		if next == nil || next == me {
			// nothing else can run: time passes, the earliest pending "late" timer elapses
			if p.fireLateTimer() {
				continue
			}
			break
		}
		p.handOff(next)
		p.waitResume(me)
	}
	me.lowPrio = false
}

func (p *Path) wake(g *G, idx int, v Value, ok bool) {
	g.state = gRunnable
	g.wait = nil
	g.wakeIdx = idx
	g.wakeVal = v
	g.wakeOk = ok
}

func (p *Path) parkedOn(ch *Chan, wantSend bool) (*G, int) {
	for _, g := range p.gs {
		if g.state != gParked {
			continue
		}
		for i, c := range g.wait {
			if c.ch == ch && c.send == wantSend {
				return g, i
			}
		}
	}
	return nil, -1
}

func (p *Path) caseReady(c selCase) bool {
	if c.ch == nil {
		return false
	}
	if c.send {
		if c.ch.Closed || len(c.ch.Buf) < c.ch.Cap {
			return true
		}
		g, _ := p.parkedOn(c.ch, false)
		return g != nil
	}
	if len(c.ch.Buf) > 0 || c.ch.Closed {
		return true
	}
	g, _ := p.parkedOn(c.ch, true)
	return g != nil
}

func (p *Path) execCase(c selCase) (Value, bool) {
	ch := c.ch
	if c.send {
		if ch.Closed {
			panic(goPanic{p.mkRuntimeError("send on closed channel")})
		}
		if g, i := p.parkedOn(ch, false); g != nil && len(ch.Buf) == 0 {
			p.wake(g, i, c.val, true)
			return nil, true
		}
		ch.Buf = append(ch.Buf, c.val)
		return nil, true
	}
	if len(ch.Buf) > 0 {
		v := ch.Buf[0]
		ch.Buf = append([]Value{}, ch.Buf[1:]...)
		if g, i := p.parkedOn(ch, true); g != nil {
			ch.Buf = append(ch.Buf, g.wait[i].val)
			p.wake(g, i, nil, true)
		}
		return v, true
	}
	if g, i := p.parkedOn(ch, true); g != nil {
		v := g.wait[i].val
		p.wake(g, i, nil, true)
		return v, true
	}
	if ch.Closed {
		return p.zero(ch.Elem), false
	}
	panic("execCase on non-ready case")
}

// selectOp performs a select (or a single send/recv when len(cases)==1).
func (p *Path) selectOp(cases []selCase, hasDefault bool) (int, Value, bool) {
	var ready []int
	for i, c := range cases {
		if p.caseReady(c) {
			ready = append(ready, i)
		}
	}
	if len(ready) > 0 {
		k := 0
		if len(ready) > 1 {
			k = p.chooseConst(len(ready), "select")
			p.notes = append(p.notes, fmt.Sprintf("select->%s", cases[ready[k]].ch.Label))
		}
		idx := ready[k]
		v, ok := p.execCase(cases[idx])
		return idx, v, ok
	}
	if hasDefault {
		return -1, nil, false
	}
	g := p.cur
	g.wait = cases
	p.park(g)
	return g.wakeIdx, g.wakeVal, g.wakeOk
}

func (p *Path) closeChan(ch *Chan) {
	if ch == nil {
		panic(goPanic{p.mkRuntimeError("close of nil channel")})
	}
	if ch.Closed {
		panic(goPanic{p.mkRuntimeError("close of closed channel")})
	}
	ch.Closed = true
	for _, g := range p.gs {
		if g.state != gParked {
			continue
		}
		for i, c := range g.wait {
			if c.ch == ch {
				if c.send {
					// will panic when resumed: model by waking with a marker
					p.wake(g, i, nil, false)
				} else {
					p.wake(g, i, p.zero(ch.Elem), false)
				}
				break
			}
		}
	}
}

func (p *Path) makeChan(elem types.Type, capacity int, label string) *Chan {
	p.chanN++
	return &Chan{Cap: capacity, Elem: elem, Label: fmt.Sprintf("%s#%d", label, p.chanN), id: p.chanN}
}

// fireLateTimer fires the oldest pending mode-4 timer that some goroutine is waiting on.
func (p *Path) fireLateTimer() bool {
	for i, ch := range p.lateTimers {
		if ch == nil {
			continue
		}
		if g, idx := p.parkedOn(ch, false); g != nil {
			p.lateTimers[i] = nil
			p.wake(g, idx, timeVal(p, p.now()), true)
			p.notes = append(p.notes, "late-timer:"+ch.Label)
			return true
		}
	}
	return false
}
