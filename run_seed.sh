#!/bin/bash
# usage: run_seed.sh <seed-id> <patch> <property>...   applies the seeded change to /repo, runs the quick checks, reverts
id=$1; patch=$2; shift 2
git -C /repo apply $patch || { echo "patch does not apply"; exit 9; }
mkdir -p /verif/seeded/$id
: > /verif/seeded/$id/check_result.txt
for p in "$@"; do
  out=$(cd /verif && ./check $p --tier quick 2>&1 | grep -E "VIOLATION|INCONCLUSIVE|KNOWN-FINDING|tier=" | cut -c1-300 | head -8)
  echo "== $p: $(echo "$out" | grep -c VIOLATION) violation line(s)" | tee -a /verif/seeded/$id/check_result.txt
  echo "$out" | head -5 | tee -a /verif/seeded/$id/check_result.txt
done
git -C /repo checkout -- .
