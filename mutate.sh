#!/bin/bash
# usage: mutate.sh <file> <python-replace-old> <new> -- <gosym args...>   (applies to /repo, runs, reverts)
f=$1; old=$2; new=$3; shift 4
python3 - "$f" "$old" "$new" <<'PY'
import sys
f,old,new=sys.argv[1:4]
s=open('/repo/'+f).read()
assert old in s, "pattern not found"
open('/repo/'+f,'w').write(s.replace(old,new,1))
PY
[ $? -eq 0 ] || exit 9
(cd /repo && go build ./... ) || { git -C /repo checkout -- .; echo "MUTANT DOES NOT BUILD"; exit 8; }
timeout -s KILL 1200 "$@" 2>&1 | grep -E "^==|sat=[1-9]|UNSUPP|PANIC|ENGINE|LOAD|VIOLATION|INCONCLUSIVE|KNOWN" | head -12
git -C /repo checkout -- .
