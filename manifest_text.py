"""Level texts for MANIFEST.json (per claimed property) and reasons for unclaimed ones."""
LEVELS = {}
NA = {
 "C16": "NetworkTransport fidelity depends on the reflection/unsafe-driven msgpack codec, bufio/net.Conn I/O and three goroutines per connection; a hand-written go/ssa encoder cannot execute reflect, and stubbing codec and streams as faithful would assume the property (DESIGN.md section 6)",
}
LEVELS["C05"] = {
 "ref": "4.5",
 "text": "Bounded symbolic verification of the real commitment code (newCommitment, match, setConfiguration, recalculate, uint64Slice sort): from an arbitrary commitment state one call keeps the commit index monotone and raises it only to an index >= startIndex held by a strict majority of the voters in force; non-voters/strangers never get a slot. Decided by z3 for all 64-bit indexes and all suffrage patterns for N<=4 (quick) / N<=5 (thorough) servers.",
 "note": "Trusted: go/ssa lowering, the gosym interpreter, z3; mutex ops are no-ops; sort.Sort is replaced by an insertion sort driven through the real Len/Less/Swap; cluster-level composition (DESIGN 3.4) is a written argument. Outside: store durability.",
}
LEVELS["C07"] = {
 "ref": "4.7",
 "text": "Bounded symbolic verification of the real membership code: nextConfiguration/checkConfiguration on an arbitrary valid configuration (N<=3 quick, N<=4 thorough; symbolic ids, addresses, suffrages) and an arbitrary request; z3 decides the one-voter-difference, >=1 voter, uniqueness, stale-prevIndex and caller-aliasing clauses for all values.",
 "note": "Trusted: go/ssa, gosym (slice/append aliasing semantics), z3. fmt.Errorf is a stub. Outside: requests racing with elections.",
}
LEVELS["C19"] = {
 "ref": "4.19",
 "text": "Bounded symbolic verification of the real LogCache code against a model backend: an inductive step from an arbitrary invariant-satisfying (cache, backend) pair plus a bounded sequence from NewLogCache; every read through the cache must equal the direct backend read, every write must be forwarded unchanged; capacities 1..3(4), window of 3 indexes at an arbitrary 64-bit base, backend failures injected.",
 "note": "Trusted: go/ssa, gosym, z3, the model backend (harness/m_stores.go). Assumes atomic backend failures and a window base that is a multiple of 12. Outside: capacities > 4, partial batch failure, caller mutating stored *Log.",
}
_STEP_NOTE = "Trusted: go/ssa, gosym, z3, model stores/transport (harness/m_*.go), stubs (logger, metrics, time). Pre-states are arbitrary states satisfying the stated representation invariant; the composition of step lemmas into the cluster-level statement is the written argument of DESIGN 3.4, not machine-checked. "
LEVELS["C01"] = {"ref": "4.1", "text": "Bounded symbolic verification of requestVote and appendEntries term handling from arbitrary invariant-satisfying states with arbitrary messages and failing stable-store calls: a vote is granted only after (term, candidate) is durable, never to a second candidate of a term, higher terms force follower state, stale terms change nothing.",
 "note": _STEP_NOTE + "Outside: goroutine preemption, transport pairing."}
LEVELS["C06"] = {"ref": "4.6", "text": "Bounded symbolic verification of the vote/pre-vote/term handlers with every StableStore call failing independently: one vote per term, only up-to-date voting members, monotone terms, and preservation of the vote-record invariant that a half-written record breaks.",
 "note": _STEP_NOTE + "Crash points are modelled as store-call failures at the same positions (a crash after the first write leaves the same durable image as a failed second write)."}
LEVELS["C14"] = {"ref": "4.14", "text": "Bounded symbolic verification that requestPreVote changes no volatile or durable state for any state/request and grants only to up-to-date voters without a known leader.",
 "note": _STEP_NOTE}
LEVELS["C03"] = {"ref": "4.3", "text": "Bounded symbolic verification of the up-to-date vote check (first grants and re-grants) and of 'no deletion at or below the commit/snapshot/applied index' in appendEntries for arbitrary logs in a window.",
 "note": _STEP_NOTE + "LM/LC/NI hypotheses are assumed for the appendEntries step."}
LEVELS["C04"] = {"ref": "4.4", "text": "Bounded symbolic verification of appendEntries over arbitrary follower and sender logs (window W=2/3 at a symbolic 64-bit base, all prev positions, duplicates, batches ending inside the follower log): success implies equality through the last entry sent, truncation only from the first conflict, log invariant and log matching preserved.",
 "note": _STEP_NOTE}
LEVELS["C02"] = {"ref": "4.2", "text": "Bounded symbolic verification of the follower's FSM feed in appendEntries: committed Command entries in index order, once, identical to the agreed entries, bounded by min(leaderCommit,lastIndex).",
 "note": _STEP_NOTE + "NI (no stale entries below the leader's commit index beyond the batch) is assumed; it is the catch-up session's invariant."}
LEVELS["C08"] = {"ref": "4.8", "text": "Bounded symbolic verification of the leader-side Apply path (dispatchLogs, the applyCh and commit cases of leaderLoop executed for one iteration under a run-until-blocked scheduler, runFSM response pairing) from arbitrary leader states.", "note": _STEP_NOTE + "Outside: real-time ordering between client goroutines."}
LEVELS["C09"] = {"ref": "4.9", "text": "Bounded symbolic verification of verifyLeader/notifyAll/vote plus the verify case of leaderLoop for every acknowledgement pattern over N<=3(4) servers of symbolic suffrage, and of the acknowledgement side (appendEntries never acknowledges a superseded term).", "note": _STEP_NOTE + "Heartbeat-freshness interleavings (D10) are not decided."}
LEVELS["C11"] = {"ref": "4.11", "text": "Bounded symbolic verification of the compaction arithmetic over full 64-bit arguments, removeOldLogs, and the ordering/atomicity clauses of installSnapshot under injected faults.", "note": _STEP_NOTE + "takeSnapshot session and snapshot bytes are outside."}
LEVELS["C12"] = {"ref": "4.12", "text": "Bounded symbolic verification of the catch-up step: replicateTo's request construction, back-track and advance rules for arbitrary follower responses, bounded back-off, and the follower state after installSnapshot. The election-liveness clause is not decided.", "note": _STEP_NOTE}
LEVELS["C13"] = {"ref": "4.13", "text": "Bounded symbolic verification of checkLeaderLease with a symbolic clock: step-down iff no voter quorum contacted within the lease, non-voters irrelevant, maxDiff/interval bounds, and the inductive next-check bound.", "note": _STEP_NOTE + "Timer latency is a symbolic slack, not measured."}
LEVELS["C18"] = {"ref": "4.18", "text": "Bounded symbolic verification of the leader-hint clauses in requestVote, appendEntries, installSnapshot, checkLeaderLease and runCandidate from arbitrary states, plus overrideNotifyBool and the NotifyCh pairing of runLeader.", "note": _STEP_NOTE + "Alternation across activations follows from run() dispatching on the state (written argument)."}
LEVELS["C20"] = {"ref": "4.20", "text": "Bounded symbolic verification of restoreUserSnapshot (and the refusing loop case) from arbitrary leader states with in-flight futures, arbitrary snapshot meta and injected snapshot-store/copy faults on both store flavours.", "note": _STEP_NOTE + "Follower catch-up after a restore is not run as a session."}
LEVELS["C17"] = {"ref": "4.17", "text": "Bounded symbolic exploration deciding the ownership core of C17: every public call after shutdown returns from Error() on every select outcome (deadlock = violation), and every future owned by a leader is answered on step-down, failure, restore or refusal. The solver's role is feasibility of symbolic flags; exhaustiveness comes from forking every select.", "note": _STEP_NOTE + "The real-time bound while running is not decided."}
NA["C15_unused"] = "crash atomicity of FileSnapshotStore depends on os/bufio/json/crc64 and real file-system semantics; the file-system model (DESIGN 4.15 layer two, ~25 stubs) was not built, and the ordering logic alone (layer one) does not decide the property"
NA["C10_unused"] = "NewRaft start-up harness not finished in this session (DESIGN 4.10); the defect D5 found by the scratch probe is recorded in DESIGN.md but no check is registered"

LEVELS["C10"] = {"ref": "4.10", "text": "Bounded symbolic verification of the real NewRaft (skipStartup) on arbitrary durable images: stable term, a log window with an optional configuration entry, 0-2 snapshots each of which may be unusable, plain or commit-tracking store with RestoreCommittedLogs; asserts that it returns, restores term/last log/newest usable snapshot/latest configuration and replays exactly the committed entries once.", "note": _STEP_NOTE + "Crash-closedness of the durable invariant (which images a crash can leave) is not decided; the image invariant is assumed. Real disk stores are outside."}

LEVELS["C15"] = {"ref": "4.15", "text": "Bounded symbolic verification of the real FileSnapshotStore code over a file-system model: a crash before every file-system step of Create/Write/Close/Cancel/reaping, every combination of lost/kept un-synced directory operations (in-order prefix) and old/new/torn un-synced file data, then List/Open from a fresh store; plus bit rot of durable files.", "note": "Trusted: go/ssa, gosym, z3 and above all the FILE-SYSTEM MODEL (engine/sym/fs.go; rules listed in the evidence assumptions): it is the environment, not the code under test. os/bufio/json/crc64 calls are intrinsics over that model. Real file systems may be weaker (POSIX does not promise that fsync of a file persists its directory entry)."}

# ---- round 4 extensions ----
_CRASH = " Crash points: each durable model-store call (stable Set/SetUint64, StoreLogs, DeleteRange, StageCommitIndex, sink Close) is offered as 'process dies before this call'; the real NewRaft then runs on the stores."
LEVELS["C10"]["text"] += " CRASH-CLOSED (round 4): appendEntries, requestVote, installSnapshot, takeSnapshot+compactLogs and restoreUserSnapshot x every crash point x the real NewRaft: the recovered server satisfies the representation invariant, keeps term/vote/newest complete snapshot/configuration and everything known committed or acknowledged."
LEVELS["C10"]["note"] = _STEP_NOTE + _CRASH + " Each single store call is atomic (torn writes inside one call are outside); real disk stores are outside; installSnapshot states fall under known finding D3 where the follower's log lacks the snapshot's last entry."
LEVELS["C06"]["text"] += " CRASH-SEQ (round 4): requestVote x crash at every stable-store write x real NewRaft x a second requestVote on the recovered server."
LEVELS["C06"]["note"] = _STEP_NOTE + _CRASH
LEVELS["C01"]["text"] += " Plus (round 4) the vote crash sequence: a vote granted before a crash at any point still excludes every other candidate of that term after the restart."
LEVELS["C11"]["text"] += " Round 4: takeSnapshot session with the real FSM/main-loop goroutines, and installSnapshot / takeSnapshot+compactLogs x crash point x real NewRaft (never a half-installed snapshot, no compaction before durable, only a complete stream becomes durable)."
LEVELS["C11"]["note"] = _STEP_NOTE + _CRASH + " Snapshot bytes are an abstract content id; io.Copy moves a symbolic byte count."
LEVELS["C20"]["text"] += " Round 4: restoreUserSnapshot x crash point x real NewRaft (restart entirely before or entirely after the restore)."
LEVELS["C02"]["text"] += " Round 4: processLogs with failing log-store reads followed by the next commit advance (no index handed to the FSM twice)."
LEVELS["C08"]["text"] += " Round 4: the applyCh case with the transfer-in-progress flag volatile (every atomic load returns an arbitrary value: over-approximates the transfer goroutine's asynchronous stores), and processLogs read faults."
LEVELS["C13"]["text"] += " Round 4: heartbeat rounds across a re-addressing of the follower by the real startStopReplication."
LEVELS["C18"]["text"] += " Round 4: a runLeader activation whose no-op cannot be stored (gain and loss both announced, in order)."
LEVELS["C19"]["text"] += " Round 4: a failing backend DeleteRange may have removed a prefix of the range (non-transactional backend)."
LEVELS["C19"]["note"] = "Trusted: go/ssa, gosym, z3, the model backend (harness/m_stores.go). Backend StoreLogs failures are atomic, DeleteRange failures may be partial (prefix removed); window base is a multiple of 12. Outside: capacities > 4, partial StoreLogs failure, caller mutating stored *Log."
LEVELS["C15"]["text"] += " Round 4: io.CopyN is modelled exactly (prefix / whole / whole+EOF), so a checksum computed over only part of the state file is seen."
LEVELS["C09"]["text"] += " Round 4: the replication routines' cached peer records carry an arbitrary (possibly stale) suffrage, as startStopReplication leaves them after a promotion/demotion."
