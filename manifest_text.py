"""Level texts for MANIFEST.json (per claimed property) and reasons for unclaimed ones."""
LEVELS = {}
NA = {
 "C16": "NetworkTransport fidelity depends on the reflection/unsafe-driven msgpack codec, bufio/net.Conn I/O and three goroutines per connection; a hand-written go/ssa encoder cannot execute reflect, and stubbing codec and streams as faithful would assume the property (DESIGN.md section 6)",
}
LEVELS["C05"] = {
 "ref": "4.5",
 "text": "Bounded symbolic verification of the real commitment code (newCommitment, match, setConfiguration, recalculate, uint64Slice sort): from an arbitrary commitment state one call keeps the commit index monotone and raises it only to an index >= startIndex held by a strict majority of the voters in force; non-voters/strangers never get a slot. Decided by z3 for all 64-bit indexes and all suffrage patterns for N<=4 (quick) / N<=5 (thorough) servers.",
 "note": "Trusted: go/ssa lowering, the gosym interpreter, z3; mutex ops are no-ops; sort.Sort is replaced by an insertion sort driven through the real Len/Less/Swap; cluster-level composition (DESIGN 3.4) is a written argument. Outside: store durability.",
}
LEVELS["C07"] = {
 "ref": "4.7",
 "text": "Bounded symbolic verification of the real membership code: nextConfiguration/checkConfiguration on an arbitrary valid configuration (N<=3 quick, N<=4 thorough; symbolic ids, addresses, suffrages) and an arbitrary request; z3 decides the one-voter-difference, >=1 voter, uniqueness, stale-prevIndex and caller-aliasing clauses for all values.",
 "note": "Trusted: go/ssa, gosym (slice/append aliasing semantics), z3. fmt.Errorf is a stub. Outside: requests racing with elections.",
}
LEVELS["C19"] = {
 "ref": "4.19",
 "text": "Bounded symbolic verification of the real LogCache code against a model backend: an inductive step from an arbitrary invariant-satisfying (cache, backend) pair plus a bounded sequence from NewLogCache; every read through the cache must equal the direct backend read, every write must be forwarded unchanged; capacities 1..3(4), window of 3 indexes at an arbitrary 64-bit base, backend failures injected.",
 "note": "Trusted: go/ssa, gosym, z3, the model backend (harness/m_stores.go). Assumes atomic backend failures and a window base that is a multiple of 12. Outside: capacities > 4, partial batch failure, caller mutating stored *Log.",
}
