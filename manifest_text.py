"""Level texts for MANIFEST.json (per claimed property) and reasons for unclaimed ones."""
LEVELS = {}
NA = {
 "C16": "NetworkTransport fidelity depends on the reflection/unsafe-driven msgpack codec, bufio/net.Conn I/O and three goroutines per connection; a hand-written go/ssa encoder cannot execute reflect, and stubbing codec and streams as faithful would assume the property (DESIGN.md section 6)",
}
LEVELS["C05"] = {
 "ref": "4.5",
 "text": "Bounded symbolic verification of the real commitment code (newCommitment, match, setConfiguration, recalculate, uint64Slice sort): from an arbitrary commitment state one call keeps the commit index monotone and raises it only to an index >= startIndex held by a strict majority of the voters in force; non-voters/strangers never get a slot. Decided by z3 for all 64-bit indexes and all suffrage patterns for N<=4 (quick) / N<=5 (thorough) servers.",
 "note": "Trusted: go/ssa lowering, the gosym interpreter, z3; mutex ops are no-ops; sort.Sort is replaced by an insertion sort driven through the real Len/Less/Swap; cluster-level composition (DESIGN 3.4) is a written argument. Outside: store durability.",
}
