"""Level texts for MANIFEST.json (per claimed property) and reasons for unclaimed ones."""
LEVELS = {}
NA = {
 "C16": "NetworkTransport fidelity depends on the reflection/unsafe-driven msgpack codec, bufio/net.Conn I/O and three goroutines per connection; a hand-written go/ssa encoder cannot execute reflect, and stubbing codec and streams as faithful would assume the property (DESIGN.md section 6)",
}
LEVELS["C05"] = {
 "ref": "4.5",
 "text": "Bounded symbolic verification of the real commitment code (newCommitment, match, setConfiguration, recalculate, uint64Slice sort): from an arbitrary commitment state one call keeps the commit index monotone and raises it only to an index >= startIndex held by a strict majority of the voters in force; non-voters/strangers never get a slot. Decided by z3 for all 64-bit indexes and all suffrage patterns for N<=4 (quick) / N<=5 (thorough) servers.",
 "note": "Trusted: go/ssa lowering, the gosym interpreter, z3; mutex ops are no-ops; sort.Sort is replaced by an insertion sort driven through the real Len/Less/Swap; cluster-level composition (DESIGN 3.4) is a written argument. Outside: store durability.",
}
LEVELS["C07"] = {
 "ref": "4.7",
 "text": "Bounded symbolic verification of the real membership code: nextConfiguration/checkConfiguration on an arbitrary valid configuration (N<=3 quick, N<=4 thorough; symbolic ids, addresses, suffrages) and an arbitrary request; z3 decides the one-voter-difference, >=1 voter, uniqueness, stale-prevIndex and caller-aliasing clauses for all values.",
 "note": "Trusted: go/ssa, gosym (slice/append aliasing semantics), z3. fmt.Errorf is a stub. Outside: requests racing with elections.",
}
LEVELS["C19"] = {
 "ref": "4.19",
 "text": "Bounded symbolic verification of the real LogCache code against a model backend: an inductive step from an arbitrary invariant-satisfying (cache, backend) pair plus a bounded sequence from NewLogCache; every read through the cache must equal the direct backend read, every write must be forwarded unchanged; capacities 1..3(4), window of 3 indexes at an arbitrary 64-bit base, backend failures injected.",
 "note": "Trusted: go/ssa, gosym, z3, the model backend (harness/m_stores.go). Assumes atomic backend failures and a window base that is a multiple of 12. Outside: capacities > 4, partial batch failure, caller mutating stored *Log.",
}
_STEP_NOTE = "Trusted: go/ssa, gosym, z3, model stores/transport (harness/m_*.go), stubs (logger, metrics, time). Pre-states are arbitrary states satisfying the stated representation invariant; the composition of step lemmas into the cluster-level statement is the written argument of DESIGN 3.4, not machine-checked. "
LEVELS["C01"] = {"ref": "4.1", "text": "Bounded symbolic verification of requestVote and appendEntries term handling from arbitrary invariant-satisfying states with arbitrary messages and failing stable-store calls: a vote is granted only after (term, candidate) is durable, never to a second candidate of a term, higher terms force follower state, stale terms change nothing.",
 "note": _STEP_NOTE + "Outside: goroutine preemption, transport pairing."}
LEVELS["C06"] = {"ref": "4.6", "text": "Bounded symbolic verification of the vote/pre-vote/term handlers with every StableStore call failing independently: one vote per term, only up-to-date voting members, monotone terms, and preservation of the vote-record invariant that a half-written record breaks.",
 "note": _STEP_NOTE + "Crash points are modelled as store-call failures at the same positions (a crash after the first write leaves the same durable image as a failed second write)."}
LEVELS["C14"] = {"ref": "4.14", "text": "Bounded symbolic verification that requestPreVote changes no volatile or durable state for any state/request and grants only to up-to-date voters without a known leader.",
 "note": _STEP_NOTE}
LEVELS["C03"] = {"ref": "4.3", "text": "Bounded symbolic verification of the up-to-date vote check (first grants and re-grants) and of 'no deletion at or below the commit/snapshot/applied index' in appendEntries for arbitrary logs in a window.",
 "note": _STEP_NOTE + "LM/LC/NI hypotheses are assumed for the appendEntries step."}
LEVELS["C04"] = {"ref": "4.4", "text": "Bounded symbolic verification of appendEntries over arbitrary follower and sender logs (window W=2/3 at a symbolic 64-bit base, all prev positions, duplicates, batches ending inside the follower log): success implies equality through the last entry sent, truncation only from the first conflict, log invariant and log matching preserved.",
 "note": _STEP_NOTE}
LEVELS["C02"] = {"ref": "4.2", "text": "Bounded symbolic verification of the follower's FSM feed in appendEntries: committed Command entries in index order, once, identical to the agreed entries, bounded by min(leaderCommit,lastIndex).",
 "note": _STEP_NOTE + "NI (no stale entries below the leader's commit index beyond the batch) is assumed; it is the catch-up session's invariant."}
