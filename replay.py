"""Native replay of a solver counterexample: the same harness, compiled by the Go
compiler with native intrinsic bodies (native/v_intrinsics_native.go), run against
/repo's real code through `go test -overlay`."""
import json
import os
import subprocess
import sys

VERIF = os.path.dirname(os.path.abspath(__file__))
REPO = os.environ.get("VERIF_REPO", "/repo")

# harnesses whose behaviour is fully determined by the recorded inputs (single goroutine,
# no symbolic clock, no io.Copy stub); the others are engine-only
NATIVE_OK = {"vh_C05_commitment_step", "vh_C05_setconfig_step", "vh_C05_commitment_seq", "vh_C07_check_config", "vh_C07_next_config",
             "vh_C19_new", "vh_C19_inductive", "vh_C19_diff", "vh_vote_step", "vh_prevote_step", "vh_ae_term", "vh_ae_log",
             "vh_compact_arith", "vh_remove_old_logs", "vh_backoff", "vh_replicate_step", "vh_dispatch", "vh_setup_leader",
             "vh_override_notify", "vh_future_once", "vh_shutdown_api", "vh_fsm_pairing",
             "vh_crash_ae", "vh_crash_vote", "vh_processlogs_faults"}


# a counterexample that depends on which ready case a select picks cannot be forced natively (Go picks at random)
SELECT_DEPENDENT = {"vh_shutdown_api"}


def run_replay(path, quiet=False):
    v = json.load(open(path))
    h = v["harness"]
    if h not in NATIVE_OK or h in SELECT_DEPENDENT:
        return None
    work = os.path.join(VERIF, "work", "replay")
    os.makedirs(work, exist_ok=True)
    overlay = {}
    hdir = os.path.join(VERIF, "harness")
    for f in sorted(os.listdir(hdir)):
        if f.endswith(".go") and f != "v_intrinsics_sym.go":
            overlay[os.path.join(REPO, "zz_verif_" + f)] = os.path.join(hdir, f)
    overlay[os.path.join(REPO, "zz_verif_native.go")] = os.path.join(VERIF, "native", "v_intrinsics_native.go")
    test = os.path.join(work, "zz_replay_test.go")
    open(test, "w").write("//go:build verif && verif_native\n\npackage raft\n\nimport \"testing\"\n\n"
                          "func TestVerifReplay(t *testing.T) { vReplayRun(t, %s, %s) }\n" % (h, json.dumps(v["assert_id"])))
    overlay[os.path.join(REPO, "zz_verif_replay_test.go")] = test
    ov = os.path.join(work, "overlay.json")
    json.dump({"Replace": overlay}, open(ov, "w"))
    env = dict(os.environ, GOFLAGS="-mod=mod", GOPROXY="off", VERIF_REPLAY=os.path.abspath(path))
    env.pop("GOSUMDB", None)
    env.pop("GOTOOLCHAIN", None)
    r = subprocess.run(["go", "test", "-tags", "verif verif_native", "-vet=off", "-count=1", "-v", "-run", "^TestVerifReplay$", "-overlay", ov, "-timeout", "120s", "."],
                       cwd=REPO, env=env, capture_output=True, text=True)
    out = r.stdout + r.stderr
    if not quiet:
        print(out[-3000:])
    if "REPLAY-REPRODUCED" in out:
        return True
    if "REPLAY-NOT-REPRODUCED" in out:
        return False
    return None  # diverged / did not build: inconclusive replay


def main(args):
    if not args:
        print("usage: ./check replay <path>")
        return 2
    res = run_replay(args[0])
    print({True: "REPRODUCED", False: "NOT REPRODUCED", None: "NO NATIVE REPLAY (engine-only harness, divergence, or build failure)"}[res])
    return 1 if res else 0


def validate_witnesses(witnesses):
    """Run solver-chosen input vectors (one per sampled completed path) natively through the same
    harness; the engine found every assertion unsat on those paths, so natively no assertion may
    fail and no assumption may be false. Returns (validated, mismatches[list])."""
    ws = [w for w in witnesses if w["harness"] in NATIVE_OK]
    if not ws:
        return 0, []
    work = os.path.join(VERIF, "work", "replay")
    os.makedirs(work, exist_ok=True)
    overlay = {}
    hdir = os.path.join(VERIF, "harness")
    for f in sorted(os.listdir(hdir)):
        if f.endswith(".go") and f != "v_intrinsics_sym.go":
            overlay[os.path.join(REPO, "zz_verif_" + f)] = os.path.join(hdir, f)
    overlay[os.path.join(REPO, "zz_verif_native.go")] = os.path.join(VERIF, "native", "v_intrinsics_native.go")
    names = sorted(set(w["harness"] for w in ws))
    test = os.path.join(work, "zz_witness_test.go")
    open(test, "w").write("//go:build verif && verif_native\n\npackage raft\n\nimport \"testing\"\n\n"
                          "func TestVerifWitnesses(t *testing.T) { vReplayWitnesses(t, map[string]func(){%s}) }\n" % ", ".join('"%s": %s' % (n, n) for n in names))
    overlay[os.path.join(REPO, "zz_verif_witness_test.go")] = test
    ov = os.path.join(work, "overlay_w.json")
    json.dump({"Replace": overlay}, open(ov, "w"))
    wf = os.path.join(work, "witnesses.json")
    json.dump([{"harness": w["harness"], "inputs": w["inputs"]} for w in ws], open(wf, "w"))
    env = dict(os.environ, GOFLAGS="-mod=mod", GOPROXY="off", VERIF_WITNESSES=wf)
    env.pop("GOSUMDB", None)
    env.pop("GOTOOLCHAIN", None)
    r = subprocess.run(["go", "test", "-tags", "verif verif_native", "-vet=off", "-count=1", "-v", "-run", "^TestVerifWitnesses$", "-overlay", ov, "-timeout", "600s", "."],
                       cwd=REPO, env=env, capture_output=True, text=True)
    ok, bad = 0, []
    seen = 0
    for line in r.stdout.split("\n"):
        if line.startswith("WITNESS-RESULT "):
            seen += 1
            d = json.loads(line[len("WITNESS-RESULT "):])
            failed = [f for f in (d.get("failed") or []) if not f.startswith("KF:")]
            if d["how"] == "returned" and not failed:
                ok += 1
            else:
                bad.append(d)
    if seen == 0:
        bad.append({"how": "native witness run produced no results", "detail": (r.stdout + r.stderr)[-600:]})
    return ok, bad
