#!/bin/bash
# usage: run_seed2.sh <id> <property>...  : round-2 seed: copy artifacts, run quick checks with the patch applied
id=$1; shift
src=/tmp/seed2_out/$id; out=/verif/seeded/R2-$id; mkdir -p $out
cp $src/patch.diff $out/patch.diff; cp $src/demo_test.go $out/demo_test.go 2>/dev/null; cp $src/notes.md $out/notes.md 2>/dev/null
/verif/run_seed.sh R2-$id $out/patch.diff "$@"
