//go:build verif

package raft

import "io"

// vh_catchup_session: two REAL objects. A freshly elected leader (log
// base+1..base+lenL, snapshot at base) runs replicateTo against a follower whose
// transport delivers every AppendEntries to the follower's real appendEntries.
// Follower log arbitrary (stale suffixes, shorter, longer, compacted to its own
// snapshot), related to the leader only by log matching and leader
// completeness. Removes the NI assumption of vh_ae_log for the fresh-leader
// walk. C02.CATCHUP = C04.PAIR = C12.PROGRESS.
func vh_catchup_session() {
	w := 2 // both tiers; the thorough tier adds Command/Noop mixes and MaxAppendEntries 2 (W=3 does not finish in hours)
	base := vBase()
	L, lenv := vNewRaft("L", vRaftOpts{n: 2, w: w, shaped: true})
	F, fenv := vNewRaft("F", vRaftOpts{n: 1, w: w, shaped: true})
	ls, fs := lenv.logs, fenv.logs
	// leader: snapshot at base, log uncompacted inside the window
	vAssume(L.lastSnapshotIndex == base)
	vAssume(vOr(ls.high == 0, ls.low == base+1))
	vAssume(vInvBasic(L, lenv))
	vAssume(vInvLog(L, lenv, w))
	vAssume(vInvBasic(F, fenv))
	vAssume(vInvLog(F, fenv, w))
	lenL := 0
	for k := 1; k <= w; k++ {
		if ls.high == base+uint64(k) {
			lenL = k
		}
	}
	vAssume(lenL >= 1) // a leader has at least its own no-op
	if vTier() == 0 {
		// quick tier: all entries are commands (the Noop skip is decided by vh_ae_log); thorough: Command/Noop mixes
		for k := 1; k <= w; k++ {
			vAssume(ls.typ.Get(base+uint64(k)) == uint64(LogCommand))
			vAssume(fs.typ.Get(base+uint64(k)) == uint64(LogCommand))
		}
	}
	view := &vPeerLog{w: w, len: lenL, term: ls.term, typ: ls.typ, data: ls.data, tm0: L.lastSnapshotTerm, commit: L.commitIndex}
	vAssume(vLogMatching(F, fs, view, w))
	// leader completeness: what F knows committed/applied/snapshotted is in L, identical; F's term is not ahead
	for k := 1; k <= w; k++ {
		idx := base + uint64(k)
		vAssume(vImplies(vAnd(vOr(idx <= F.commitIndex, idx <= F.lastApplied), fs.has(idx)), vAnd(k <= lenL, vSameAt(fs, view, k))))
	}
	vAssume(F.lastSnapshotIndex <= base+uint64(lenL))
	vAssume(F.lastApplied <= base+uint64(lenL))
	vAssume(vImplies(F.commitIndex > base, F.commitIndex <= base+uint64(lenL)))
	for k := 0; k <= lenL; k++ {
		vAssume(vImplies(F.lastSnapshotIndex == base+uint64(k), view.termAtOff(k) == F.lastSnapshotTerm))
	}
	vAssume(F.currentTerm <= L.currentTerm)
	vAssume(F.state == Follower)
	vAssume(ls.term.Get(ls.high) == L.currentTerm) // the leader's own-term entry is its last one
	// every entry the follower holds from the leader's term is the leader's (one leader per term, C01)
	for k := 1; k <= w; k++ {
		idx := base + uint64(k)
		vAssume(vImplies(vAnd(fs.has(idx), fs.term.Get(idx) == L.currentTerm), vAnd(k <= lenL, vSameAt(fs, view, k))))
	}
	vAssume(L.configurations.latest.Servers[0].Suffrage == Voter)
	vAssume(L.configurations.latest.Servers[1].Suffrage == Voter)
	vMakeLeader(L, "L", 0)
	peer := L.configurations.latest.Servers[1]
	s := L.leaderState.replState[peer.ID]
	s.failures = 0
	lastIndex := L.getLastIndex()
	s.nextIndex = lastIndex + 1 // freshly elected leader
	cfg := L.conf.Load().(Config)
	cfg.MaxAppendEntries = 1 // one entry per RPC: the longest walk
	if vTier() == 1 {
		cfg.MaxAppendEntries = vChoose("maxAE", 1, 2)
	}
	L.conf.Store(cfg)
	nRPC := 0
	preApplied := F.lastApplied
	preFCommit := F.commitIndex
	lenv.trans.onAppend = func(id ServerID, a *AppendEntriesRequest, resp *AppendEntriesResponse) error {
		nRPC++
		vAssert(nRPC <= 2*w+3, "C12.session.bounded-rpcs")
		before := s.nextIndex
		_ = before
		rpc, ch := vMakeRPC(a)
		F.appendEntries(rpc, a)
		out := <-ch
		*resp = *(out.Response.(*AppendEntriesResponse))
		return out.Error
	}
	vTimerMode(1) // back-off timers fire at once
	vAssertNoPanic("C02.session.no-panic")
	stop := L.replicateTo(s, lastIndex)
	vAssert(!stop, "C12.session.no-stop")
	vCover("session.done")
	// caught up: next index past the end, logs equal above the follower's snapshot
	vAssert(s.nextIndex == lastIndex+1, "C12.session.caught-up")
	vAssert(F.currentTerm == L.currentTerm, "C01.session.follower-adopts-term")
	for k := 1; k <= lenL; k++ {
		idx := base + uint64(k)
		vAssert(vOr(idx <= F.lastSnapshotIndex, vAnd(fs.has(idx), vSameAt(fs, view, k))), "C04.session.logs-equal-through-last")
		vAssert(vImplies(fs.has(idx), vSameAt(fs, view, k)), "C04.session.no-stale-entry-left")
	}
	for k := lenL + 1; k <= w; k++ {
		vAssert(!fs.has(base+uint64(k)), "C04.session.stale-suffix-removed")
	}
	fl, _ := F.getLastLog()
	vAssert(fl == lastIndex || fl <= F.lastSnapshotIndex, "C04.session.last-log-is-leaders")
	// commit: follower's commit index is the leader's, bounded by what it has
	wantCommit := preFCommit
	if L.commitIndex > wantCommit {
		wantCommit = L.commitIndex
	}
	vAssert(F.commitIndex == wantCommit, "C05.session.follower-commit-follows-leader")
	vAssert(F.commitIndex >= preFCommit && F.lastApplied >= preApplied, "C05.session.mono")
	// FSM feed: only entries at or below the leader's commit index, each the leader's entry, increasing
	next := preApplied + 1
	for len(F.fsmMutateCh) > 0 {
		b := (<-F.fsmMutateCh).([]*commitTuple)
		for _, ct := range b {
			vCover("session.fed-fsm")
			vAssert(ct.log.Index >= next && ct.log.Index <= L.commitIndex, "C02.session.feed-committed-in-order")
			same := false
			for k := 1; k <= lenL; k++ {
				idx := base + uint64(k)
				same = vOr(same, vAnd(ct.log.Index == idx, vAnd(ct.log.Term == ls.term.Get(idx), vAnd(uint64(ct.log.Type) == ls.typ.Get(idx), vBlobToCell(ct.log.Data) == ls.data.Get(idx)))))
			}
			vAssert(same, "C02.session.feed-equals-leader-entry")
			next = ct.log.Index + 1
		}
	}
	vReach("session.end")
}

// vh_snapshot_session: two REAL objects, compacted leader. The leader's log starts above its snapshot
// (index base+1), the follower's log ends below it (a lagging, restarted or new server): the real
// replicateTo finds no previous entry, ships its newest snapshot through the real sendLatestSnapshot,
// the follower's real installSnapshot (with its real FSM goroutine) installs it, and replicateTo goes on
// with AppendEntries from the snapshot boundary until the follower has caught up. C12 (snapshot
// installation makes progress and is followed by log replication), C02/C11 (FSM = snapshot + the
// leader's committed entries, in order), C04.
func vh_snapshot_session() { vSnapshotSession(false) }

// vh_restore_session: the same walk after a user Restore on the leader (gap-tolerant store): leader and
// follower both still hold the old entry base+1, the leader's snapshot sits at the burned index base+2
// (an index no log holds) in the leader's current term, and its log continues at base+3. The follower is
// brought to the restored state by the snapshot, never by replaying old entries. C20 (followers), C12.
func vh_restore_session() { vSnapshotSession(true) }

func vSnapshotSession(restore bool) {
	w := 3
	base := vBase()
	L, lenv := vNewRaft("L", vRaftOpts{n: 2, w: w})
	F, fenv := vNewRaft("F", vRaftOpts{n: 1, w: w})
	ls, fs := lenv.logs, fenv.logs
	vAssume(base >= 1)
	// offsets: snapshot at base+siOff, the leader's entries above it are base+siOff+1 .. base+topOff
	siOff, topOff := 1, 1+vChoose("L.len", 1, 2)
	if restore {
		siOff, topOff = 2, 3
	}
	si := base + uint64(siOff)
	for k := 1; k <= w; k++ {
		idx := base + uint64(k)
		inLog := k > siOff && k <= topOff
		if restore && k == 1 {
			inLog = true // the old entry below the burned index is kept by a gap-tolerant store
		}
		if inLog {
			ls.present.Set(idx, 1)
		} else {
			ls.present.Set(idx, 0)
		}
		fs.present.Set(idx, 0)
		t := ls.typ.Get(idx)
		vAssume(vOr(t == uint64(LogCommand), t == uint64(LogNoop)))
		vAssume(vCanonBlobCell(ls.data.Get(idx)))
		vAssume(vCanonBlobCell(ls.ext.Get(idx)))
	}
	ls.low, ls.high = base+uint64(siOff)+1, base+uint64(topOff)
	if restore {
		ls.low = base + 1
	}
	L.lastSnapshotIndex, L.lastSnapshotTerm = si, vU64("L.snapTerm")
	L.lastLogIndex, L.lastLogTerm = ls.high, ls.term.Get(ls.high)
	for k := siOff + 1; k <= topOff; k++ {
		prev := L.lastSnapshotTerm
		if k > siOff+1 {
			prev = ls.term.Get(base + uint64(k-1))
		}
		vAssume(prev <= ls.term.Get(base+uint64(k)))
	}
	vAssume(L.lastLogTerm == L.currentTerm && L.currentTerm < 1<<62) // its own no-op/entry is last
	if restore {
		vAssume(L.lastSnapshotTerm == L.currentTerm)         // a user restore stamps the snapshot with the current term
		vAssume(ls.term.Get(base+1) <= L.lastSnapshotTerm) // the old entry
	}
	L.commitIndex = si + uint64(vChoose("L.commitOff", 0, topOff-siOff))
	L.lastApplied = L.commitIndex
	vAssume(lenv.stable.term == L.currentTerm && lenv.stable.voteTerm <= L.currentTerm)
	snapCfg := vConfig("snapcfg", 1, false)
	snapSize := vI64("snap.size")
	vAssume(snapSize >= 0)
	lenv.snaps.metas = []*SnapshotMeta{{Version: SnapshotVersionMax, ID: "lsnap", Index: si, Term: L.lastSnapshotTerm,
		Configuration: snapCfg.Clone(), ConfigurationIndex: vU64("snap.cfgIndex"), Size: snapSize}}
	vAssume(lenv.snaps.metas[0].ConfigurationIndex <= base)
	L.configurations.latestIndex, L.configurations.committedIndex = lenv.snaps.metas[0].ConfigurationIndex, lenv.snaps.metas[0].ConfigurationIndex
	// follower: everything it has lies below the leader's snapshot
	fs.low, fs.high = 0, 0
	F.lastSnapshotIndex, F.lastSnapshotTerm = base, vU64("F.snapTerm")
	F.lastApplied = base
	if restore {
		// it holds the same old entry as the leader (log matching), applied or not
		fs.low, fs.high = base+1, base+1
		fs.present.Set(base+1, 1)
		fs.term.Set(base+1, ls.term.Get(base+1))
		fs.typ.Set(base+1, ls.typ.Get(base+1))
		fs.data.Set(base+1, ls.data.Get(base+1))
		fs.ext.Set(base+1, ls.ext.Get(base+1))
		F.lastLogIndex, F.lastLogTerm = base+1, fs.term.Get(base+1)
		vAssume(F.lastSnapshotTerm <= fs.term.Get(base+1))
		F.lastApplied = base + uint64(vChoose("F.appliedOff", 0, 1))
		F.commitIndex = F.lastApplied
	} else {
		vAssume(F.lastSnapshotTerm <= L.lastSnapshotTerm)
		if vChoose("F.cacheAtSnapshot", 0, 1) == 1 {
			F.lastLogIndex, F.lastLogTerm = base, F.lastSnapshotTerm
		} else {
			F.lastLogIndex, F.lastLogTerm = 0, 0
		}
		F.commitIndex = vIte64(vBool("F.commitZero"), 0, base)
	}
	F.state = Follower
	vAssume(F.currentTerm <= L.currentTerm && fenv.stable.term == F.currentTerm && fenv.stable.voteTerm <= F.currentTerm && F.lastSnapshotTerm <= F.currentTerm && F.lastLogTerm <= F.currentTerm)
	F.configurations.latestIndex = vU64("F.cfgIndex")
	vAssume(F.configurations.latestIndex <= base)
	F.configurations.committedIndex = F.configurations.latestIndex
	vAssume(L.configurations.latest.Servers[0].Suffrage == Voter)
	vAssume(L.configurations.latest.Servers[1].Suffrage == Voter)
	vMakeLeader(L, "L", 0)
	peer := L.configurations.latest.Servers[1]
	s := L.leaderState.replState[peer.ID]
	s.failures = 0
	lastIndex := L.getLastIndex()
	// wherever the leader believes the follower is, at or below the snapshot boundary
	s.nextIndex = base + uint64(vChoose("nextOff", 1, siOff))
	cfg := L.conf.Load().(Config)
	cfg.MaxAppendEntries = vChoose("maxAE", 1, 2)
	L.conf.Store(cfg)
	vNoIOFaults()
	vIOSize(snapSize)
	preFApplied := F.lastApplied
	nAE, nSnap := 0, 0
	lenv.trans.onAppend = func(id ServerID, a *AppendEntriesRequest, resp *AppendEntriesResponse) error {
		nAE++
		vAssert(nAE <= 2*w+3, "C12.snapsession.bounded-rpcs")
		rpc, ch := vMakeRPC(a)
		F.appendEntries(rpc, a)
		out := <-ch
		*resp = *(out.Response.(*AppendEntriesResponse))
		return out.Error
	}
	lenv.trans.onSnapshot = func(id ServerID, a *InstallSnapshotRequest, resp *InstallSnapshotResponse, data io.Reader) error {
		nSnap++
		vAssert(nSnap <= 1, "C12.snapsession.snapshot-sent-once")
		rpc, ch := vMakeRPC(a)
		rpc.Reader = &mReader{}
		F.installSnapshot(rpc, a)
		out := <-ch
		*resp = *(out.Response.(*InstallSnapshotResponse))
		return out.Error
	}
	vGo(F.runFSM)
	vTimerMode(1)
	vAssertNoPanic("C02.snapsession.no-panic")
	stop := L.replicateTo(s, lastIndex)
	vQuiesce() // let the follower's FSM goroutine consume what it was handed
	vAssert(!stop, "C12.snapsession.no-stop")
	vCover("snapsession.done")
	vAssert(nSnap == 1, "C12.snapsession.snapshot-installed-once")
	vAssert(s.nextIndex == lastIndex+1, "C12.snapsession.caught-up")
	vAssert(F.currentTerm == L.currentTerm, "C01.snapsession.follower-adopts-term")
	vAssert(F.lastSnapshotIndex == si && F.lastSnapshotTerm == L.lastSnapshotTerm, "C11.snapsession.follower-snapshot-is-leaders")
	for k := siOff + 1; k <= topOff; k++ {
		idx := base + uint64(k)
		same := vAnd(fs.term.Get(idx) == ls.term.Get(idx), vAnd(fs.typ.Get(idx) == ls.typ.Get(idx), fs.data.Get(idx) == ls.data.Get(idx)))
		vAssert(vAnd(fs.has(idx), same), "C04.snapsession.logs-equal-above-snapshot")
	}
	fl, _ := F.getLastLog()
	vAssert(fl == lastIndex, "C04.snapsession.last-log-is-leaders")
	vAssert(F.commitIndex == L.commitIndex || (F.commitIndex <= si && L.commitIndex <= si), "C05.snapsession.follower-commit-follows-leader")
	vAssert(vSameServers(F.configurations.latest.Servers, snapCfg.Servers), "C11.snapsession.configuration-from-snapshot")
	// the follower's FSM: restored once from the snapshot, then the leader's committed Command entries above it, in order, once
	nRestore := 0
	next := si + 1
	for _, c := range fenv.fsm.calls {
		switch c.op {
		case opFSMRestore:
			nRestore++
			vAssert(next == si+1, "C02.snapsession.restore-before-any-apply")
		case opFSMApply:
			vCover("snapsession.fed-fsm")
			vAssert(nRestore == 1, "C02.snapsession.apply-only-after-restore")
			vAssert(nRestore == 1 && c.index > si, "C20.session.nothing-from-before-the-restore-is-applied-after-it")
			vAssert(c.index >= next && c.index <= L.commitIndex, "C02.snapsession.feed-committed-in-order")
			vAssert(c.term == ls.term.Get(c.index) && uint64(c.typ) == ls.typ.Get(c.index) && vBlobToCell(c.data) == ls.data.Get(c.index), "C02.snapsession.feed-equals-leader-entry")
			for k := siOff + 1; k <= topOff; k++ {
				idx := base + uint64(k)
				vAssert(vImplies(vAnd(idx >= next, idx < c.index), ls.typ.Get(idx) == uint64(LogNoop)), "C02.snapsession.skipped-only-noop")
			}
			next = c.index + 1
		}
	}
	vAssert(nRestore == 1, "C02.snapsession.restored-once")
	vAssert(nRestore == 1 && F.lastApplied >= si && F.lastApplied >= preFApplied, "C20.session.follower-restored-from-the-user-snapshot")
	vAssert(F.lastApplied == vIte64(L.commitIndex > si, L.commitIndex, si), "C02.snapsession.applied-is-leader-commit")
	vReach("snapsession.end")
}
