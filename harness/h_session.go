//go:build verif

package raft

// vh_catchup_session: two REAL objects. A freshly elected leader (log
// base+1..base+lenL, snapshot at base) runs replicateTo against a follower whose
// transport delivers every AppendEntries to the follower's real appendEntries.
// Follower log arbitrary (stale suffixes, shorter, longer, compacted to its own
// snapshot), related to the leader only by log matching and leader
// completeness. Removes the NI assumption of vh_ae_log for the fresh-leader
// walk. C02.CATCHUP = C04.PAIR = C12.PROGRESS.
func vh_catchup_session() {
	w := 2 // both tiers; the thorough tier adds Command/Noop mixes and MaxAppendEntries 2 (W=3 does not finish in hours)
	base := vBase()
	L, lenv := vNewRaft("L", vRaftOpts{n: 2, w: w, shaped: true})
	F, fenv := vNewRaft("F", vRaftOpts{n: 1, w: w, shaped: true})
	ls, fs := lenv.logs, fenv.logs
	// leader: snapshot at base, log uncompacted inside the window
	vAssume(L.lastSnapshotIndex == base)
	vAssume(vOr(ls.high == 0, ls.low == base+1))
	vAssume(vInvBasic(L, lenv))
	vAssume(vInvLog(L, lenv, w))
	vAssume(vInvBasic(F, fenv))
	vAssume(vInvLog(F, fenv, w))
	lenL := 0
	for k := 1; k <= w; k++ {
		if ls.high == base+uint64(k) {
			lenL = k
		}
	}
	vAssume(lenL >= 1) // a leader has at least its own no-op
	if vTier() == 0 {
		// quick tier: all entries are commands (the Noop skip is decided by vh_ae_log); thorough: Command/Noop mixes
		for k := 1; k <= w; k++ {
			vAssume(ls.typ.Get(base+uint64(k)) == uint64(LogCommand))
			vAssume(fs.typ.Get(base+uint64(k)) == uint64(LogCommand))
		}
	}
	view := &vPeerLog{w: w, len: lenL, term: ls.term, typ: ls.typ, data: ls.data, tm0: L.lastSnapshotTerm, commit: L.commitIndex}
	vAssume(vLogMatching(F, fs, view, w))
	// leader completeness: what F knows committed/applied/snapshotted is in L, identical; F's term is not ahead
	for k := 1; k <= w; k++ {
		idx := base + uint64(k)
		vAssume(vImplies(vAnd(vOr(idx <= F.commitIndex, idx <= F.lastApplied), fs.has(idx)), vAnd(k <= lenL, vSameAt(fs, view, k))))
	}
	vAssume(F.lastSnapshotIndex <= base+uint64(lenL))
	vAssume(F.lastApplied <= base+uint64(lenL))
	vAssume(vImplies(F.commitIndex > base, F.commitIndex <= base+uint64(lenL)))
	for k := 0; k <= lenL; k++ {
		vAssume(vImplies(F.lastSnapshotIndex == base+uint64(k), view.termAtOff(k) == F.lastSnapshotTerm))
	}
	vAssume(F.currentTerm <= L.currentTerm)
	vAssume(F.state == Follower)
	vAssume(ls.term.Get(ls.high) == L.currentTerm) // the leader's own-term entry is its last one
	// every entry the follower holds from the leader's term is the leader's (one leader per term, C01)
	for k := 1; k <= w; k++ {
		idx := base + uint64(k)
		vAssume(vImplies(vAnd(fs.has(idx), fs.term.Get(idx) == L.currentTerm), vAnd(k <= lenL, vSameAt(fs, view, k))))
	}
	vAssume(L.configurations.latest.Servers[0].Suffrage == Voter)
	vAssume(L.configurations.latest.Servers[1].Suffrage == Voter)
	vMakeLeader(L, "L", 0)
	peer := L.configurations.latest.Servers[1]
	s := L.leaderState.replState[peer.ID]
	s.failures = 0
	lastIndex := L.getLastIndex()
	s.nextIndex = lastIndex + 1 // freshly elected leader
	cfg := L.conf.Load().(Config)
	cfg.MaxAppendEntries = 1 // one entry per RPC: the longest walk
	if vTier() == 1 {
		cfg.MaxAppendEntries = vChoose("maxAE", 1, 2)
	}
	L.conf.Store(cfg)
	nRPC := 0
	preApplied := F.lastApplied
	preFCommit := F.commitIndex
	lenv.trans.onAppend = func(id ServerID, a *AppendEntriesRequest, resp *AppendEntriesResponse) error {
		nRPC++
		vAssert(nRPC <= 2*w+3, "C12.session.bounded-rpcs")
		before := s.nextIndex
		_ = before
		rpc, ch := vMakeRPC(a)
		F.appendEntries(rpc, a)
		out := <-ch
		*resp = *(out.Response.(*AppendEntriesResponse))
		return out.Error
	}
	vTimerMode(1) // back-off timers fire at once
	vAssertNoPanic("C02.session.no-panic")
	stop := L.replicateTo(s, lastIndex)
	vAssert(!stop, "C12.session.no-stop")
	vCover("session.done")
	// caught up: next index past the end, logs equal above the follower's snapshot
	vAssert(s.nextIndex == lastIndex+1, "C12.session.caught-up")
	vAssert(F.currentTerm == L.currentTerm, "C01.session.follower-adopts-term")
	for k := 1; k <= lenL; k++ {
		idx := base + uint64(k)
		vAssert(vOr(idx <= F.lastSnapshotIndex, vAnd(fs.has(idx), vSameAt(fs, view, k))), "C04.session.logs-equal-through-last")
		vAssert(vImplies(fs.has(idx), vSameAt(fs, view, k)), "C04.session.no-stale-entry-left")
	}
	for k := lenL + 1; k <= w; k++ {
		vAssert(!fs.has(base+uint64(k)), "C04.session.stale-suffix-removed")
	}
	fl, _ := F.getLastLog()
	vAssert(fl == lastIndex || fl <= F.lastSnapshotIndex, "C04.session.last-log-is-leaders")
	// commit: follower's commit index is the leader's, bounded by what it has
	wantCommit := preFCommit
	if L.commitIndex > wantCommit {
		wantCommit = L.commitIndex
	}
	vAssert(F.commitIndex == wantCommit, "C05.session.follower-commit-follows-leader")
	vAssert(F.commitIndex >= preFCommit && F.lastApplied >= preApplied, "C05.session.mono")
	// FSM feed: only entries at or below the leader's commit index, each the leader's entry, increasing
	next := preApplied + 1
	for len(F.fsmMutateCh) > 0 {
		b := (<-F.fsmMutateCh).([]*commitTuple)
		for _, ct := range b {
			vCover("session.fed-fsm")
			vAssert(ct.log.Index >= next && ct.log.Index <= L.commitIndex, "C02.session.feed-committed-in-order")
			same := false
			for k := 1; k <= lenL; k++ {
				idx := base + uint64(k)
				same = vOr(same, vAnd(ct.log.Index == idx, vAnd(ct.log.Term == ls.term.Get(idx), vAnd(uint64(ct.log.Type) == ls.typ.Get(idx), vBlobToCell(ct.log.Data) == ls.data.Get(idx)))))
			}
			vAssert(same, "C02.session.feed-equals-leader-entry")
			next = ct.log.Index + 1
		}
	}
	vReach("session.end")
}
