//go:build verif

package raft

// Leader-side obligations: C08.DISPATCH, C03.DURABLE-BEFORE-ACK, C05.LEADER-SELF,
// C08.APPLY-CASE, C08.COMMIT-CASE, C05.CURRENT-TERM, C07.COMMIT-CONFIG, C07.GATE,
// C02.FSM-PAIRING / C08.RESPONSE.

func vArbFuture(tag string) *logFuture {
	f := &logFuture{log: Log{Type: LogType(vChoose(tag+".type", 0, 1)) * LogBarrier, Data: vBlob(tag + ".data"), Extensions: vBlob(tag + ".ext")}}
	f.init()
	return f
}

func vFutureErr(f *deferError) (bool, error) {
	if !f.responded {
		return false, nil
	}
	return true, f.Error()
}

// vh_dispatch: dispatchLogs with 1..2 futures on an arbitrary leader; the log
// store may fail.
func vh_dispatch() {
	w := 3
	r, env := vNewRaft("L", vRaftOpts{n: 2, w: w, shaped: true})
	vAssume(vInvBasic(r, env))
	vAssume(vInvLog(r, env, w))
	vMakeLeader(r, "L", vChoose("self", -1, 0))
	st := env.logs
	base := vBase()
	lastIndex := r.getLastIndex()
	k := vChoose("k", 1, 2)
	vAssume(lastIndex+uint64(k) <= base+uint64(w)) // stay inside the window (bound)
	vAssume(lastIndex >= base)
	// log cache consistent with an existing tail (R4)
	var fs []*logFuture
	for i := 0; i < k; i++ {
		fs = append(fs, vArbFuture("f"))
	}
	var cstore *mCommitLogStore
	if vChoose("commitTracking", 0, 1) == 1 {
		cstore = &mCommitLogStore{mLogStore: st, staged: vU64("staged")}
		vAssume(cstore.staged <= r.commitIndex)
		r.logs = cstore
		r.RestoreCommittedLogs = true
	}
	pre := vSnap(r, env)
	preInflight := r.leaderState.inflight.Len()
	preMatch, selfSlot := r.leaderState.commitment.matchIndexes[r.localID]
	st.failOn = true
	r.dispatchLogs(fs)
	st.failOn = false
	if cstore != nil {
		vCover("dispatch.commit-tracking")
		// what a restart would treat as committed never exceeds what is committed now
		vAssert(cstore.staged <= pre.commit, "C05.dispatch.staged-commit-index-is-committed")
		vAssert(cstore.staged <= pre.commit, "C10.dispatch.staged-commit-index-is-committed")
	}
	post := vSnap(r, env)
	nStore := 0
	var sc mCall
	for _, c := range st.calls {
		if c.op == opStoreLogs {
			nStore++
			sc = c
		}
	}
	vAssert(nStore == 1, "C08.dispatch.one-store-call")
	for i, f := range fs {
		vAssert(f.log.Index == lastIndex+uint64(i)+1, "C08.dispatch.consecutive-indexes")
		vAssert(f.log.Term == pre.term, "C08.dispatch.current-term")
		vAssert(f.log.Index > pre.logIdx && f.log.Index > pre.snapIdx, "C03.dispatch.append-only")
	}
	vAssert(sc.a == lastIndex+1 && sc.b == lastIndex+uint64(k), "C08.dispatch.store-range")
	if sc.ok {
		vCover("dispatch.stored")
		// durable before acknowledged to the commitment tracker
		for i, f := range fs {
			vAssert(st.has(f.log.Index) && st.term.Get(f.log.Index) == pre.term && st.data.Get(f.log.Index) == vBlobToCell(f.log.Data), "C03.dispatch.stored-before-ack")
			done, _ := vFutureErr(&f.deferError)
			vAssert(!done, "C08.dispatch.future-pending")
			_ = i
		}
		vAssert(r.leaderState.inflight.Len() == preInflight+k, "C08.dispatch.inflight-pushed")
		e := r.leaderState.inflight.Back()
		for i := k - 1; i >= 0; i-- {
			vAssert(e.Value.(*logFuture) == fs[i], "C08.dispatch.inflight-in-index-order")
			e = e.Prev()
		}
		if selfSlot {
			vAssert(r.leaderState.commitment.matchIndexes[r.localID] == vIte64(lastIndex+uint64(k) > preMatch, lastIndex+uint64(k), preMatch), "C05.dispatch.leader-self-match")
		}
		vAssert(post.logIdx == lastIndex+uint64(k) && post.logTerm == pre.term, "C08.dispatch.last-log-updated")
		vAssert(post.state == Leader, "C08.dispatch.stays-leader")
	} else {
		vCover("dispatch.store-failed")
		for _, f := range fs {
			done, err := vFutureErr(&f.deferError)
			vAssert(done && err != nil, "C08.dispatch.failure-answers-every-future")
			vAssert(done && err != nil, "C03.dispatch.failed-write-never-acked")
			vAssert(done && err != nil, "C17.dispatch.failure-answers-every-future")
		}
		vAssert(post.state == Follower, "C08.dispatch.failure-steps-down")
		if selfSlot {
			vAssert(r.leaderState.commitment.matchIndexes[r.localID] == preMatch, "C05.dispatch.failure-not-matched")
			vAssert(r.leaderState.commitment.matchIndexes[r.localID] == preMatch, "C03.dispatch.failure-not-matched")
		}
		vAssert(post.logIdx == pre.logIdx && post.logTerm == pre.logTerm, "C08.dispatch.failure-last-log-unchanged")
	}
	vAssert(post.commit == pre.commit && post.term == pre.term, "C08.dispatch.frame")
	vReach("dispatch.end")
}

// ---- FSM goroutine ----

type mBatchFSM struct{ mFSM }

func (f *mBatchFSM) ApplyBatch(logs []*Log) []interface{} {
	var out []interface{}
	for _, l := range logs {
		out = append(out, f.Apply(l))
	}
	return out
}

type mConfigFSM struct {
	mFSM
	stored []uint64
}

func (f *mConfigFSM) StoreConfiguration(index uint64, c Configuration) {
	f.stored = append(f.stored, index)
	f.calls = append(f.calls, mFSMCall{op: opFSMStoreConfig, index: index})
}

// vh_fsm_pairing: runFSM serves one batch of 1..3 tuples (types Command,
// Barrier, Configuration) with or without futures, plain and batching FSM.
func vh_fsm_pairing() {
	r, _ := vNewRaft("a", vRaftOpts{n: 1})
	var calls *[]mFSMCall
	var base *mFSM
	switch vChoose("fsm", 0, 2) {
	case 0:
		f := &mFSM{}
		r.fsm, calls, base = f, &f.calls, f
	case 1:
		f := &mBatchFSM{}
		r.fsm, calls, base = f, &f.calls, &f.mFSM
	case 2:
		f := &mConfigFSM{}
		r.fsm, calls, base = f, &f.calls, &f.mFSM
	}
	n := vChoose("n", 1, 2+vTier())
	var batch []*commitTuple
	idx := vU64("first")
	vAssume(idx < 1<<62 && idx > 0)
	for i := 0; i < n; i++ {
		var t LogType
		switch vChoose("type", 0, 2) {
		case 0:
			t = LogCommand
		case 1:
			t = LogBarrier
		case 2:
			t = LogConfiguration
		}
		l := &Log{Index: idx + uint64(i), Term: vU64("term"), Type: t, Data: vBlob("data")}
		if t == LogConfiguration {
			l.Data = vEncodeConfiguration(vConfig("c", 1, false))
		}
		var fut *logFuture
		if vChoose("hasFuture", 0, 1) == 1 {
			fut = &logFuture{log: *l}
			fut.init()
		}
		batch = append(batch, &commitTuple{l, fut})
		if fut != nil {
			base.watch = append(base.watch, fut)
		}
	}
	r.fsmMutateCh <- batch
	vAssertNoPanic("C02.fsm.no-panic")
	vRunUntilBlocked(r.runFSM)
	// the FSM saw exactly the Command logs (and Configuration for a ConfigurationStore), in order, once
	ci := 0
	_, batching := r.fsm.(*mBatchFSM)
	for _, ct := range batch {
		// a BatchingFSM is documented to receive LogConfiguration entries through ApplyBatch as well
		isCmd := ct.log.Type == LogCommand || (batching && ct.log.Type == LogConfiguration)
		if isCmd {
			vAssert(ci < len(*calls) && (*calls)[ci].op == opFSMApply && (*calls)[ci].index == ct.log.Index && (*calls)[ci].term == ct.log.Term && vBlobEq((*calls)[ci].data, ct.log.Data), "C02.fsm.apply-in-order-once")
			if ct.future != nil {
				vCover("fsm.future-command")
				done, err := vFutureErr(&ct.future.deferError)
				vAssert(done && err == nil, "C08.fsm.command-future-answered-nil")
				resp, ok := ct.future.response.(mFSMResp)
				vAssert(ok && ci < len(*calls) && resp.v == (*calls)[ci].resp, "C08.fsm.response-is-of-that-entry")
			}
			ci++
		} else if ct.log.Type == LogConfiguration {
			if _, ok := r.fsm.(*mConfigFSM); ok {
				vAssert(ci < len(*calls) && (*calls)[ci].op == opFSMStoreConfig && (*calls)[ci].index == ct.log.Index, "C02.fsm.store-configuration-in-order")
				ci++
			}
			if ct.future != nil {
				done, err := vFutureErr(&ct.future.deferError)
				vAssert(done && err == nil, "C08.fsm.config-future-answered")
			}
		} else {
			if ct.future != nil {
				vCover("fsm.future-barrier")
				done, err := vFutureErr(&ct.future.deferError)
				vAssert(done && err == nil, "C08.fsm.barrier-answered-after-earlier-tuples")
				vAssert(ct.future.response == nil, "C08.fsm.barrier-no-response")
			}
		}
	}
	vAssert(ci == len(*calls), "C02.fsm.nothing-else-applied")
	// a future (Barrier in particular) is answered only after every earlier entry of the batch reached the FSM
	vAssert(!base.early, "C08.fsm.no-future-answered-before-earlier-entries-applied")
	vAssert(len(r.fsmMutateCh) == 0, "C02.fsm.batch-consumed")
	vReach("fsm.end")
}

// vh_fsm_position: the FSM goroutine's (lastIndex, lastTerm) - what snapshots
// are stamped with - after a batch, after a restore, after a failed restore.
// C11 (snapshot index/term are those of the applied history), C02.FSM-PAIRING (restore).
func vh_fsm_position() {
	r, env := vNewRaft("a", vRaftOpts{n: 1})
	fsm := &mSnapFSM{}
	r.fsm = fsm
	// a first batch: one or two commands (the second may be a Barrier, which still advances the position in batch mode only)
	i1, t1 := vU64("i1"), vU64("t1")
	vAssume(i1 >= 1 && i1 < 1<<62)
	r.fsmMutateCh <- []*commitTuple{{&Log{Index: i1, Term: t1, Type: LogCommand}, nil}}
	scenario := vChoose("scenario", 0, 2)
	var rf *restoreFuture
	var meta *SnapshotMeta
	if scenario >= 1 {
		meta = &SnapshotMeta{Version: SnapshotVersionMax, ID: "snapA", Index: vU64("snap.index"), Term: vU64("snap.term")}
		vAssume(meta.Index >= 1) // snapshots are taken at an applied index
		env.snaps.metas = []*SnapshotMeta{meta}
		if scenario == 2 {
			fsm.restoreFail = true
		}
		rf = &restoreFuture{ID: "snapA"}
		rf.init()
		r.fsmMutateCh <- rf
	}
	req := &reqSnapshotFuture{}
	req.init()
	vAssertNoPanic("C02.fsmpos.no-panic")
	vRunUntilBlocked(r.runFSM) // the batch and the restore are served first (channel FIFO) ...
	vGo(func() { r.fsmSnapshotCh <- req })
	vQuiesce() // ... then the snapshot request
	done, err := vFutureErr(&req.deferError)
	vAssert(done && err == nil, "C11.fsmpos.snapshot-request-answered")
	nRestore := 0
	for _, c := range fsm.calls {
		if c.op == opFSMRestore {
			nRestore++
		}
	}
	switch scenario {
	case 0:
		vCover("fsmpos.after-batch")
		vAssert(req.index == i1 && req.term == t1, "C11.fsmpos.stamp-is-last-applied-entry")
	case 1:
		vCover("fsmpos.after-restore")
		d, e := vFutureErr(&rf.deferError)
		vAssert(d && e == nil && nRestore == 1, "C02.fsmpos.restore-once")
		vAssert(req.index == meta.Index && req.term == meta.Term, "C11.fsmpos.stamp-is-restored-snapshot")
		vAssert(req.index == meta.Index && req.term == meta.Term, "C02.fsmpos.position-after-restore")
	case 2:
		vCover("fsmpos.after-failed-restore")
		d, e := vFutureErr(&rf.deferError)
		vAssert(d && e != nil, "C02.fsmpos.failed-restore-reported")
		vAssert(req.index == i1 && req.term == t1, "C11.fsmpos.failed-restore-keeps-position")
	}
	vReach("fsmpos.end")
}
