//go:build verif

package raft

// vh_newraft: the real NewRaft (skipStartup) on an arbitrary durable image:
// stable term, a log in a window with at most one configuration entry, 0..2
// snapshots (each may fail to open), plain or commit-tracking store with
// RestoreCommittedLogs. C10.NEWRAFT.
func vh_newraft() {
	w := 2 + vTier()
	base := vBase()
	s := vNewLogStoreShaped("d.log", w)
	hiOff, loOff := 0, 0
	for k := 1; k <= w; k++ {
		if s.high == base+uint64(k) {
			hiOff = k
		}
		if s.low == base+uint64(k) {
			loOff = k
		}
	}
	stable := &mStable{term: vU64("d.term"), voteTerm: vU64("d.voteTerm"), voteCand: vBlob("d.voteCand")}
	stable.absentErr = vChoose("absentErr", 0, 1) == 1
	vAssume(stable.term < 1<<62)
	// entry types: Command/Noop, and at most one Configuration entry at a chosen position
	cfgOff := 0
	if hiOff > 0 {
		cfgOff = vChoose("cfgOff", 0, hiOff)
		if cfgOff > 0 && cfgOff < loOff {
			cfgOff = 0
		}
	}
	logCfg := vConfig("logcfg", 1, false)
	for k := 1; k <= w; k++ {
		idx := base + uint64(k)
		if k == cfgOff {
			s.typ.Set(idx, uint64(LogConfiguration))
			s.data.Set(idx, vBlobToCell(vEncodeConfiguration(logCfg)))
		} else {
			t := s.typ.Get(idx)
			vAssume(vOr(t == uint64(LogCommand), t == uint64(LogNoop)))
		}
		vAssume(s.term.Get(idx) <= stable.term)
	}
	// snapshots, newest first; the log reaches down to the newest snapshot
	snaps := &mSnapStore{}
	nSnap := vChoose("snapshots", 0, 2)
	snapCfg := vConfig("snapcfg", 1, false)
	var snapOffs [2]int
	openFails := [2]bool{}
	prev := w
	for i := 0; i < nSnap; i++ {
		off := vChoose("snapOff", 0, prev)
		snapOffs[i] = off
		prev = off
		id := "snapA"
		if i == 1 {
			id = "snapB"
		}
		m := &SnapshotMeta{Version: SnapshotVersionMax, ID: id, Index: base + uint64(off), Term: vU64("snapTerm"), Configuration: snapCfg.Clone(), ConfigurationIndex: vU64("snapCfgIndex")}
		vAssume(m.ConfigurationIndex <= m.Index && m.Term <= stable.term)
		snaps.metas = append(snaps.metas, m)
		openFails[i] = vChoose("openFails", 0, 1) == 1
	}
	snaps.openFail = map[string]bool{"snapA": openFails[0], "snapB": openFails[1]}
	if nSnap > 0 && hiOff > 0 {
		vAssume(loOff <= snapOffs[0]+1) // coverage: log contiguous down to the newest snapshot
	}
	if nSnap == 0 && hiOff > 0 {
		vAssume(s.low == 1) // without a snapshot the log starts at 1
	}
	commitTracking := vChoose("commitTracking", 0, 1) == 1
	var logs LogStore = s
	var cstore *mCommitLogStore
	conf := vDefaultConfig(ServerID("local"))
	conf.skipStartup = true
	if commitTracking {
		cstore = &mCommitLogStore{mLogStore: s, staged: base + uint64(vChoose("stagedOff", 0, w))}
		logs = cstore
		conf.RestoreCommittedLogs = true
	}
	fsm := &mFSM{}
	trans := &mTrans{consumer: make(chan RPC, 1), local: ServerAddress("local")}
	vSpawnPolicy(false)
	// which snapshot should be restored: the newest that opens
	usable := -1
	for i := 0; i < nSnap; i++ {
		if !openFails[i] {
			usable = i
			break
		}
	}
	// D7: the newest snapshot is unusable, start-up falls back to an older one, but the log was compacted
	// against the newer one and no longer reaches down to the restored index: NewRaft panics ("log not found")
	d7 := usable > 0 && hiOff > 0 && loOff > snapOffs[usable]+1
	if d7 {
		vAssertNoPanic("KF:D7:C10.newraft.no-panic")
	} else {
		vAssertNoPanic("C10.newraft.no-panic")
	}
	vAssertNoDeadlock("C10.newraft.returns")
	r, err := NewRaft(&conf, fsm, logs, stable, snaps, trans)
	if nSnap > 0 && usable < 0 {
		vCover("newraft.no-usable-snapshot")
		vAssert(err != nil && r == nil, "C10.newraft.error-when-no-snapshot-loads")
		vReach("newraft.end")
		return
	}
	vAssert(err == nil && r != nil, "C10.newraft.returns-without-error")
	if err != nil {
		return
	}
	vCover("newraft.ok")
	vAssert(r.getCurrentTerm() == stable.term, "C10.newraft.term-restored")
	vAssert(stable.voteTerm == stable.voteTerm && len(stable.calls) <= 1, "C10.newraft.vote-record-untouched")
	li, lt := r.getLastLog()
	if hiOff > 0 {
		vAssert(li == s.high && lt == s.term.Get(s.high), "C10.newraft.last-log-restored")
	} else {
		vAssert(li == 0 && lt == 0, "C10.newraft.empty-log")
	}
	si, stm := r.getLastSnapshot()
	nRestore := 0
	for _, c := range fsm.calls {
		if c.op == opFSMRestore {
			nRestore++
		}
	}
	if usable >= 0 {
		vCover("newraft.snapshot-restored")
		m := snaps.metas[usable]
		vAssert(si == m.Index && stm == m.Term, "C10.newraft.newest-usable-snapshot")
		vAssert(nRestore == 1 && snaps.lastOpened == m.ID, "C10.newraft.fsm-restored-from-that-snapshot")
	} else {
		vAssert(si == 0 && nRestore == 0, "C10.newraft.no-snapshot")
	}
	// expected configuration: the configuration entry above the restored snapshot, else the snapshot's
	snapIdxOff := -1
	if usable >= 0 {
		snapIdxOff = snapOffs[usable]
	}
	if cfgOff > 0 && cfgOff > snapIdxOff {
		vCover("newraft.config-from-log")
		vAssertKF(r.configurations.latestIndex == base+uint64(cfgOff) && vSameServers(r.configurations.latest.Servers, logCfg.Servers),
			commitTracking && base+uint64(cfgOff) <= cstore.staged, "C10.newraft.latest-configuration-from-log", "D5")
	} else if usable >= 0 {
		vCover("newraft.config-from-snapshot")
		vAssert(r.configurations.latestIndex == snaps.metas[usable].ConfigurationIndex && vSameServers(r.configurations.latest.Servers, snapCfg.Servers), "C10.newraft.latest-configuration-from-snapshot")
	} else {
		vAssert(len(r.configurations.latest.Servers) == 0, "C10.newraft.no-configuration")
	}
	// committed logs replay
	applied := r.getLastApplied()
	if commitTracking {
		want := cstore.staged
		if want > s.high {
			want = s.high
		}
		floor := si
		if want > floor {
			vCover("newraft.replayed-committed")
			vAssert(applied == want && r.getCommitIndex() == want, "C10.newraft.replay-to-staged-commit")
			next := floor + 1
			for len(r.fsmMutateCh) > 0 {
				b, ok := (<-r.fsmMutateCh).([]*commitTuple)
				if !ok {
					continue
				}
				for _, ct := range b {
					vAssert(ct.log.Index >= next && ct.log.Index <= want, "C10.newraft.replay-in-order-once")
					next = ct.log.Index + 1
				}
			}
		} else {
			vAssert(applied == floor, "C10.newraft.nothing-to-replay")
		}
	} else {
		vAssert(applied == si, "C10.newraft.applied-is-snapshot-index")
	}
	vReach("newraft.end")
}
