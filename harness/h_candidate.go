//go:build verif

package raft

import "errors"

var errNoPreVote = errors.New("unexpected command: peer does not know pre-vote")

// vh_candidate: runCandidate (+ preElectSelf / electSelf) run to the first
// park with arbitrary per-peer responses. C01.TALLY, C01.SELF-VOTE,
// C07.NONVOTER-INERT, C14.ISOLATED, C14.TRANSFER-EXCEPTION.
func vh_candidate() {
	n := vChoose("n", 1, 2+vTier())
	r, env := vNewRaft("c", vRaftOpts{n: n, splitCommitted: true})
	vAssume(vInvBasic(r, env))
	selfIdx := vChoose("self", -1, n-1)
	servers := r.configurations.latest.Servers
	if selfIdx >= 0 {
		r.localID, r.localAddr = servers[selfIdx].ID, servers[selfIdx].Address
	} else {
		for _, s := range servers {
			vAssume(s.ID != r.localID)
		}
	}
	r.state = Candidate
	r.preVoteDisabled = vChoose("preVoteDisabled", 0, 1) == 1
	transfer := false
	if n <= 2 {
		transfer = vChoose("transfer", 0, 1) == 1 // (n = 3 is explored without the transfer flag to bound the thorough tier)
	}
	r.candidateFromLeadershipTransfer.Store(transfer)
	env.stable.failOn = n == 1 && vChoose("stableFaults", 0, 1) == 1
	type ans struct {
		term    uint64
		granted bool
		err     int // 0 ok, 1 error, 2 "unexpected command" (peer without pre-vote)
	}
	votes := map[ServerID]*ans{}
	pres := map[ServerID]*ans{}
	for i, s := range servers {
		if i == selfIdx {
			continue
		}
		votes[s.ID] = &ans{term: vU64("vote.term"), granted: vBool("vote.granted"), err: vChoose("vote.err", 0, 1)}
		pres[s.ID] = &ans{term: vU64("pre.term"), granted: vBool("pre.granted"), err: vChoose("pre.err", 0, 2)}
	}
	var reqTerm uint64
	env.trans.onVote = func(id ServerID, a *RequestVoteRequest, resp *RequestVoteResponse) error {
		reqTerm = a.Term
		vAssert(a.LeadershipTransfer == transfer, "C14.candidate.transfer-flag-in-request")
		an := votes[id]
		if an.err != 0 {
			return errInjected
		}
		resp.Term, resp.Granted = an.term, an.granted
		return nil
	}
	env.trans.onPreVote = func(id ServerID, a *RequestPreVoteRequest, resp *RequestPreVoteResponse) error {
		an := pres[id]
		if an.err == 1 {
			return errInjected
		}
		if an.err == 2 {
			return errNoPreVote
		}
		resp.Term, resp.Granted = an.term, an.granted
		return nil
	}
	pre := vSnap(r, env)
	vSpawnPolicy(true)
	vTimerMode(0) // election timer does not fire within this round
	if !env.stable.failOn {
		vAssertNoPanic("C01.candidate.no-panic") // with store faults setCurrentTerm panics by design
	}
	vRunUntilBlocked(r.runCandidate)
	post := vSnap(r, env)
	voters := vCountVoters(r.configurations.latest)
	quorum := voters/2 + 1
	// non-voters and self are never asked
	for _, id := range env.trans.sentVotes {
		vAssert(vHasVoteT(r.configurations.latest, id) && id != r.localID, "C01.candidate.votes-asked-of-voters-only")
		vAssert(vHasVoteT(r.configurations.latest, id) && id != r.localID, "C07.candidate.nonvoters-never-asked")
	}
	for _, id := range env.trans.sentPre {
		vAssert(vHasVoteT(r.configurations.latest, id) && id != r.localID, "C14.candidate.prevotes-asked-of-voters-only")
	}
	usedPreVote := !r.preVoteDisabled && !transfer
	vAssert(usedPreVote || len(env.trans.sentPre) == 0, "C14.candidate.prevote-skipped-only-for-transfer")
	// tally
	selfVoter := selfIdx >= 0 && servers[selfIdx].Suffrage == Voter
	var preGrants, grants uint64
	higherTerm := false
	for i, s := range servers {
		if i == selfIdx || s.Suffrage != Voter {
			continue
		}
		p := pres[s.ID]
		if p.err == 2 || (p.err == 0 && p.granted) {
			preGrants++
		}
		v := votes[s.ID]
		if v.err == 0 && v.granted {
			grants++
		}
	}
	if selfVoter {
		preGrants++
	}
	selfVotePersisted := post.stVoteTerm == pre.term+1 && vBlobEq(post.stVoteCand, []byte(r.localAddr))
	_ = higherTerm
	elected := len(env.trans.sentVotes) > 0 || post.term == pre.term+1
	if post.state == Leader {
		vCover("candidate.won")
		self := uint64(0)
		if selfVoter {
			self = 1
			vAssert(selfVotePersisted, "C01.candidate.self-vote-durable-before-counted")
		}
		vAssert(grants+self >= quorum, "C01.candidate.leader-needs-voter-quorum")
		vAssert(post.term == pre.term+1 && post.stTerm == post.term, "C01.candidate.leader-of-bumped-term")
		vAssert(reqTerm == 0 || reqTerm == post.term, "C01.candidate.requests-carry-new-term")
		vAssert(post.leaderAddr == r.localAddr && post.leaderID == r.localID, "C18.candidate.leader-hint-self")
		if usedPreVote {
			vAssert(preGrants >= quorum, "C14.candidate.election-needs-prevote-quorum")
		}
	}
	if usedPreVote && preGrants < quorum {
		// pre-vote not won: the term must not move unless a peer reported a higher one
		sawHigher := false
		for i, s := range servers {
			if i == selfIdx || s.Suffrage != Voter {
				continue
			}
			p := pres[s.ID]
			if p.err == 0 && p.term > pre.term+1 {
				sawHigher = true
			}
		}
		if !sawHigher {
			vCover("candidate.prevote-lost")
			vAssert(post.term == pre.term && post.stableCalls == pre.stableCalls, "C14.candidate.no-term-inflation-without-prevote-quorum")
			vAssert(len(env.trans.sentVotes) == 0 && !elected, "C14.candidate.no-election-without-prevote-quorum")
			vAssert(post.state == Candidate, "C14.candidate.stays-candidate")
		} else {
			vCover("candidate.prevote-higher-term")
			vAssert(post.state != Leader, "C14.candidate.higher-term-no-leader")
			if post.state == Follower {
				// the higher term reported by a peer is adopted (durably), so that the cluster's terms converge
				adopted := false
				for i, s := range servers {
					if i == selfIdx || s.Suffrage != Voter {
						continue
					}
					p := pres[s.ID]
					if p.err == 0 && p.term > pre.term+1 && post.term == p.term {
						adopted = true
					}
				}
				vAssert(adopted && post.stTerm == post.term, "C12.candidate.higher-term-from-prevote-adopted")
				vAssert(adopted && post.stTerm == post.term, "C01.candidate.higher-term-from-prevote-adopted")
				vAssert(adopted && post.stTerm == post.term, "C06.candidate.higher-term-from-prevote-adopted")
			}
		}
	}
	vAssert(post.term >= pre.term && post.stTerm == post.term, "C06.candidate.term-persisted-and-mono")
	if post.state != Candidate || r.getState() != Candidate {
		// the transfer privilege is reset on every exit of runCandidate
		vAssert(!r.candidateFromLeadershipTransfer.Load(), "C14.candidate.transfer-flag-reset")
	}
	vReach("candidate.end")
}

// vh_setup_leader: setupLeaderState on an arbitrary server.
func vh_setup_leader() {
	n := vChoose("n", 1, 3)
	r, env := vNewRaft("a", vRaftOpts{n: n})
	vAssume(vInvBasic(r, env))
	r.setupLeaderState()
	cm := r.leaderState.commitment
	vAssert(cm.startIndex == r.getLastIndex()+1, "C05.setup.start-index-is-first-index-of-term")
	vAssert(cm.startIndex > r.getLastIndex(), "C03.setup.no-old-term-entry-commits-by-counting")
	vAssert(cm.commitIndex == 0 && vKeysAreVoters(cm, r.configurations.latest), "C05.setup.fresh-commitment")
	for _, s := range r.configurations.latest.Servers {
		vAssert(cm.matchIndexes[s.ID] == 0, "C05.setup.match-starts-at-zero")
	}
	vAssert(r.leaderState.inflight.Len() == 0 && len(r.leaderState.replState) == 0 && len(r.leaderState.notify) == 0, "C08.setup.empty-leader-state")
	vReach("setup.end")
}

// vh_candidate_timeout: an election round that ends by the election timer
// (nobody answers favourably): runCandidate returns still a candidate; the
// leadership-transfer privilege must be gone and a pre-vote round must not have moved the term.
func vh_candidate_timeout() {
	r, env := vNewRaft("c", vRaftOpts{n: 2})
	vAssume(vInvBasic(r, env))
	servers := r.configurations.latest.Servers
	r.localID, r.localAddr = servers[0].ID, servers[0].Address
	vAssume(servers[0].Suffrage == Voter && servers[1].Suffrage == Voter)
	r.state = Candidate
	r.preVoteDisabled = vChoose("preVoteDisabled", 0, 1) == 1
	transfer := vChoose("transfer", 0, 1) == 1
	r.candidateFromLeadershipTransfer.Store(transfer)
	env.trans.onVote = func(id ServerID, a *RequestVoteRequest, resp *RequestVoteResponse) error { return errInjected }
	env.trans.onPreVote = func(id ServerID, a *RequestPreVoteRequest, resp *RequestPreVoteResponse) error { return errInjected }
	// one client operation is queued meanwhile (each queue in turn): a candidate refuses it
	af := vArbFuture("f")
	vf := &verifyFuture{}
	vf.init()
	which := vChoose("queue", 0, 2)
	switch which {
	case 1:
		r.applyCh <- af
	case 2:
		r.verifyCh <- vf
	}
	pre := vSnap(r, env)
	vSpawnPolicy(true)
	vTimerMode(1) // the election timer fires
	vRunUntilBlocked(r.runCandidate)
	post := vSnap(r, env)
	if which == 1 {
		if done, err := vFutureErr(&af.deferError); done {
			vCover("timeout.apply-refused")
			vAssert(err == ErrNotLeader && af.log.Index == 0, "C17.candidate.apply-refused-not-leader")
			vAssert(err == ErrNotLeader && af.log.Index == 0, "C08.candidate.refused-apply-never-stored")
		} else {
			vAssert(len(r.applyCh) == 1, "C17.candidate.apply-still-queued")
		}
	}
	if which == 2 {
		if done, err := vFutureErr(&vf.deferError); done {
			vAssert(err == ErrNotLeader, "C17.candidate.verify-refused-not-leader")
			vAssert(err == ErrNotLeader, "C09.candidate.verify-never-succeeds-on-candidate")
		} else {
			vAssert(len(r.verifyCh) == 1, "C17.candidate.verify-still-queued")
		}
	}
	vAssert(!r.candidateFromLeadershipTransfer.Load(), "C14.timeout.transfer-privilege-reset-on-every-exit")
	if !r.preVoteDisabled && !transfer {
		vCover("timeout.prevote-round")
		vAssert(post.term == pre.term && post.stableCalls == pre.stableCalls, "C14.timeout.isolated-prevote-round-keeps-term")
	} else {
		vCover("timeout.real-election-round")
		vAssert(post.term == pre.term+1, "C14.timeout.one-term-per-real-round")
	}
	vAssert(post.state == Candidate, "C14.timeout.still-candidate")
	vReach("timeout.end")
}
