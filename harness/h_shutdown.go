//go:build verif

package raft

import "time"

// vh_shutdown_api: the server has been shut down (shutdownCh closed, run
// loops gone); every public call followed by Error() must complete; every
// outcome of a select with several ready cases is explored (Go picks at random).
func vh_shutdown_api() {
	r, env := vNewRaft("a", vRaftOpts{n: 1})
	_ = env
	// NewRaft's channel shapes
	batch := vChoose("batchApplyCh", 0, 1) == 1
	if batch {
		r.applyCh = make(chan *logFuture, 2)
	} else {
		r.applyCh = make(chan *logFuture)
	}
	r.verifyCh = make(chan *verifyFuture, 2)
	r.configurationsCh = make(chan *configurationsFuture, 2)
	r.state = Shutdown
	r.shutdown = true
	close(r.shutdownCh)
	vTimerMode(0)
	var err error
	call := vChoose("call", 0, 9)
	// D8: calls whose enqueue can win the select against the closed shutdownCh and whose future has no ShutdownCh
	d8 := call == 2 || (batch && (call == 0 || call == 1)) || call == 7
	if d8 {
		vAssertNoDeadlock("KF:D8:C17.shutdown.no-call-blocks-forever")
	} else {
		vAssertNoDeadlock("C17.shutdown.no-call-blocks-forever")
	}
	switch call {
	case 0:
		vNote("Apply")
		err = r.Apply(vBlob("cmd"), 0).Error()
	case 1:
		vNote("Barrier")
		err = r.Barrier(0).Error()
	case 2:
		vNote("VerifyLeader")
		err = r.VerifyLeader().Error()
	case 3:
		vNote("AddVoter")
		err = r.AddVoter(ServerID(vStr("id")), ServerAddress(vStr("addr")), 0, 0).Error()
	case 4:
		vNote("RemoveServer")
		err = r.RemoveServer(ServerID(vStr("id")), 0, 0).Error()
	case 5:
		vNote("Snapshot")
		err = r.Snapshot().Error()
	case 6:
		vNote("Restore")
		err = r.Restore(&SnapshotMeta{Version: SnapshotVersionMax}, &mReader{}, 0)
	case 7:
		vNote("LeadershipTransfer")
		err = r.LeadershipTransfer().Error()
	case 8:
		vNote("GetConfiguration")
		err = r.GetConfiguration().Error()
		vAssert(err == nil, "C17.shutdown.get-configuration-immediate")
		vReach("shutdown.end")
		return
	case 9:
		vNote("BootstrapCluster")
		err = r.BootstrapCluster(Configuration{Servers: []Server{{Suffrage: Voter, ID: "x", Address: "x"}}}).Error()
	}
	vCover("shutdown.call-returned")
	vAssert(err == ErrRaftShutdown || (call == 7 && err == ErrEnqueueTimeout), "C17.shutdown.err-raft-shutdown")
	vReach("shutdown.end")
}

// vh_future_once: deferError semantics.
func vh_future_once() {
	d := &deferError{}
	d.init()
	e1 := errInjected
	if vBool("nilErr") {
		e1 = nil
	}
	d.respond(e1)
	d.respond(ErrNotLeader) // idempotent: ignored
	a := d.Error()
	b := d.Error()
	vAssert(a == e1 && b == e1, "C17.future.first-response-wins-and-repeats")
	// a future with a shutdown channel resolves once that channel is closed
	d2 := &deferError{}
	d2.init()
	sh := make(chan struct{})
	d2.ShutdownCh = sh
	close(sh)
	vAssert(d2.Error() == ErrRaftShutdown, "C17.future.shutdown-resolves")
	_ = time.Second
	vReach("future.end")
}

// vh_apply_api: the client entry points on a running server whose main loop is
// busy (nobody receives from applyCh): with a timeout the call reports
// ErrEnqueueTimeout and the command is never enqueued (C08); without one it is
// owned by the channel / a parked sender (not lost).
func vh_apply_api() {
	r, _ := vNewRaft("a", vRaftOpts{n: 1})
	batch := vChoose("batchApplyCh", 0, 1) == 1
	if batch {
		r.applyCh = make(chan *logFuture, 1)
		r.applyCh <- vArbFuture("queued") // the buffer is full
	} else {
		r.applyCh = make(chan *logFuture)
	}
	pre := len(r.applyCh)
	vTimerMode(1) // the enqueue timer elapses
	var f Future
	if vChoose("barrier", 0, 1) == 1 {
		f = r.Barrier(time.Second)
	} else {
		f = r.Apply(vBlob("cmd"), time.Second)
	}
	err := f.Error()
	vAssert(err == ErrEnqueueTimeout, "C08.api.enqueue-timeout-reported")
	vAssert(len(r.applyCh) == pre, "C08.api.timed-out-command-never-enqueued")
	vReach("applyapi.end")
}

// vh_timeout_now: the TimeoutNow handler (leadership transfer target).
func vh_timeout_now() {
	r, env := vNewRaft("a", vRaftOpts{n: 1})
	vAssume(vInvBasic(r, env))
	pre := vSnap(r, env)
	rpc, ch := vMakeRPC(&TimeoutNowRequest{})
	r.timeoutNow(rpc, &TimeoutNowRequest{})
	out := <-ch
	post := vSnap(r, env)
	vAssert(out.Error == nil, "C14.timeoutnow.answered")
	vAssert(post.state == Candidate && r.candidateFromLeadershipTransfer.Load(), "C14.timeoutnow.becomes-transfer-candidate")
	vAssert(post.leaderAddr == "" && post.leaderID == "", "C18.timeoutnow.leader-hint-cleared")
	vAssert(post.term == pre.term && post.stableCalls == pre.stableCalls && post.storeCalls == pre.storeCalls, "C06.timeoutnow.no-durable-change")
	vReach("timeoutnow.end")
}
