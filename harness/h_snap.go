//go:build verif

package raft

// vh_install_snapshot: one installSnapshot on an arbitrary follower, with the
// FSM goroutine running. C02.SNAP-INSTALL, C11.INSTALL, C12 (stale tail), C01/C18 term+hint.
// vh_install_snapshot: no injected faults, request of the follower's term; all log shapes.
func vh_install_snapshot() { vInstallSnapshot(2+vTier(), false) }

// vh_install_faults: every snapshot-store / copy / FSM fault and every term relation on a small window.
func vh_install_faults() { vInstallSnapshot(1, true) }

func vInstallSnapshot(w int, faults bool) {
	flavour := vChoose("storeFlavour", 0, 2) // 0 plain, 1 monotonic, 2 MonotonicLogStore shim answering false (LogCache over a plain store)
	mono := flavour == 1
	r, env := vNewRaft("f", vRaftOpts{n: 1, w: w, shaped: true, mono: mono, monoShim: flavour == 2})
	s := env.logs
	l := vNewPeerLog("L", w)
	base := vBase()
	vAssume(vInvBasic(r, env))
	vAssume(vInvLog(r, env, w))
	vAssume(vLogMatching(r, s, l, w))
	// LC: what F knows committed / applied / snapshotted is in the sender's log, identical
	for k := 1; k <= w; k++ {
		idx := base + uint64(k)
		vAssume(vImplies(vAnd(vOr(idx <= r.commitIndex, idx <= r.lastApplied), s.has(idx)), vAnd(k <= l.len, vSameAt(s, l, k))))
	}
	vAssume(r.lastSnapshotIndex <= base+uint64(l.len))
	for k := 0; k <= l.len; k++ {
		vAssume(vImplies(r.lastSnapshotIndex == base+uint64(k), l.termAtOff(k) == r.lastSnapshotTerm))
	}
	siOff := vChoose("siOff", 0, l.len)
	si := base + uint64(siOff)
	vAssume(si >= 1)
	cfg := vConfig("snapcfg", 1, false)
	req := &InstallSnapshotRequest{
		RPCHeader:       RPCHeader{ProtocolVersion: ProtocolVersionMax, ID: vBlob("req.id"), Addr: vBlob("req.addr")},
		SnapshotVersion: SnapshotVersionMax,
		Term:            vU64("req.term"), Leader: vBlob("req.leader"),
		LastLogIndex: si, LastLogTerm: l.termAtOff(siOff),
		Configuration: vEncodeConfiguration(cfg), ConfigurationIndex: vU64("req.cfgIndex"),
		Size: vI64("req.size"),
	}
	vAssume(req.Term < 1<<62 && req.Term >= l.lastTerm())
	vAssume(req.Size >= 0 && req.ConfigurationIndex <= si)
	vAssume(len(req.ID) > 0)
	if faults {
		env.snaps.failOn = true
		env.fsm.restoreFail = vBool("fsm.restoreFail")
	} else {
		vAssume(req.Term == r.currentTerm)
		vAssume(r.state == Follower)
		vNoIOFaults()
		vIOSize(req.Size)
	}
	pre := vSnap(r, env)
	preStore := s.clone()
	hadSnapEntry := vAnd(preStore.has(si), preStore.term.Get(si) == req.LastLogTerm)
	vGo(r.runFSM)
	rpc, ch := vMakeRPC(req)
	rpc.Reader = &mReader{}
	vAssertNoPanic("C02.install.no-panic")
	r.installSnapshot(rpc, req)
	out := <-ch
	resp := out.Response.(*InstallSnapshotResponse)
	post := vSnap(r, env)
	nRestore := 0
	for _, c := range env.fsm.calls {
		if c.op == opFSMRestore {
			nRestore++
		}
	}
	if req.Term < pre.term {
		vCover("install.stale-term")
		vAssert(!resp.Success && vSameState(pre, post) && nRestore == 0 && len(env.snaps.calls) == 0, "C01.install.stale-term-frame")
		// a request of a superseded term never becomes the leader hint
		vAssert(post.leaderAddr == pre.leaderAddr && post.leaderID == pre.leaderID && post.term == pre.term, "C18.install.stale-term-keeps-leader-hint")
		vReach("install.end")
		return
	}
	vAssert(post.term == req.Term && vImplies(req.Term > pre.term, post.state == Follower), "C01.install.term-adopted")
	if si < pre.snapIdx {
		// a delayed or duplicated request for a snapshot that ends before the follower's own snapshot carries nothing new:
		// nothing may move backwards (the log has been compacted against the newer snapshot, so the entries in between
		// would be in neither the snapshot nor the log) - finding D12, fixed
		vCover("install.older-than-own-snapshot")
		frame := post.applied == pre.applied && post.snapIdx == pre.snapIdx && post.snapTerm == pre.snapTerm && nRestore == 0 && post.storeCalls == pre.storeCalls && post.latestIndex == pre.latestIndex
		vAssert(frame, "C02.install.snapshot-older-than-own-is-ignored")
		vAssert(frame, "C11.install.older-snapshot-never-replaces-newer")
		vAssert(frame, "C10.install.older-snapshot-never-replaces-newer")
		closed := false
		for _, c := range env.snaps.calls {
			if c.op == opSnapClose && c.ok {
				closed = true
			}
		}
		vAssert(!closed, "C11.install.older-snapshot-not-made-durable")
		vReach("install.end")
		return
	}
	if out.Error == nil || resp.Success || len(env.snaps.calls) > 0 {
		// past the version/term checks the sender of this very request is recorded as leader
		vAssert(post.leaderAddr == ServerAddress(req.Addr) && post.leaderID == ServerID(req.ID), "C18.install.leader-hint-from-request")
	}
	// order of effects as seen by the snapshot store / FSM
	created, closedOK, canceled, closeTried := false, false, false, false
	for _, c := range env.snaps.calls {
		switch c.op {
		case opSnapCreate:
			created = c.ok
			vAssert(c.a == si && c.b == req.LastLogTerm, "C11.install.sink-stamped-with-request")
			// what a restart will read back (C10): the durable snapshot carries the snapshot's own last term, not the sender's current term
			vAssert(c.a == si && c.b == req.LastLogTerm, "C10.install.durable-snapshot-position-is-requests")
		case opSnapClose:
			closedOK = c.ok
			closeTried = true
		case opSnapCancel:
			canceled = true
		}
	}
	if faults {
		// a stream that ended early (or ran over) never becomes a durable snapshot: after a restart it would
		// be restored as if it were the complete state at its index
		vAssert(vImplies(closedOK, vIOCopyN(0) == req.Size), "C11.install.only-complete-stream-becomes-durable")
		vAssert(vImplies(closedOK, vIOCopyN(0) == req.Size), "C10.install.only-complete-stream-becomes-durable")
		vAssert(vImplies(closedOK, vIOCopyN(0) == req.Size), "C02.install.only-complete-stream-becomes-durable")
	}
	if resp.Success {
		vCover("install.success")
		vAssert(created && closedOK && !canceled, "C11.install.durable-before-success")
		vAssert(nRestore == 1 && !env.fsm.restoreFail, "C02.install.restore-once-before-reply")
		vAssert(post.applied == si, "C02.install.last-applied-is-snapshot-index")
		vAssert(post.snapIdx == si && post.snapTerm == req.LastLogTerm, "C11.install.last-snapshot-updated")
		vAssert(post.latestIndex == req.ConfigurationIndex && post.committedIndex == req.ConfigurationIndex && vSameServers(post.latest, cfg.Servers) && vSameServers(post.committed, cfg.Servers), "C02.install.configuration-restored")
		vAssert(out.Error == nil, "C02.install.no-error-on-success")
		// nothing above the snapshot is removed unless the store is monotonic (wholesale reset)
		for k := 1; k <= w; k++ {
			idx := base + uint64(k)
			if !mono {
				vAssert(vImplies(vAnd(preStore.has(idx), idx > si), s.has(idx)), "C11.install.compaction-keeps-above-snapshot")
			}
		}
		if mono {
			vAssert(s.low == 0 && s.high == 0, "C11.install.monotonic-store-reset")
		}
		// the representation invariant and log matching with the sender hold afterwards:
		// no stale entry survives at or below the snapshot, no stale tail above it, cache consistent
		// D3: the follower's log did not contain the snapshot's last entry, or the log was wiped (monotonic store) while the cached last-log position was kept
		cause := vOr(!hadSnapEntry, mono)
		inv := vInvLogClauses(r, env, w)
		for i, b := range inv {
			if i == 4 || i == 5 || i == 6 {
				continue // commit/applied/config index clauses are re-established by the next AppendEntries
			}
			vAssertKF(b, cause, "C02.install.inv-log."+vInvLogNames[i], "D3")
			vAssertKF(b, cause, "C11.install.inv-log."+vInvLogNames[i], "D3")
			vAssertKF(b, cause, "C12.install.inv-log."+vInvLogNames[i], "D3")
		}
		vAssertKF(vLogMatching(r, s, l, w), cause, "C02.install.no-stale-entries-survive", "D3")
		vAssertKF(vLogMatching(r, s, l, w), cause, "C04.install.log-matching-preserved", "D3")
	} else {
		vCover("install.failed")
		vAssert(post.applied == pre.applied && post.snapIdx == pre.snapIdx && post.snapTerm == pre.snapTerm, "C11.install.failure-no-state-change")
		vAssert(post.latestIndex == pre.latestIndex && post.storeCalls == pre.storeCalls, "C11.install.failure-log-untouched")
		vAssert(vImplies(vAnd(created, !closeTried), canceled), "C11.install.failure-cancels-sink")
		vAssert(vImplies(!closedOK, nRestore == 0), "C11.install.no-restore-before-durable")
	}
	vReach("install.end")
}

// vh_take_snapshot: takeSnapshot run together with the real FSM goroutine and
// the real follower main loop (which answers the configurations request).
// C11.TAKE-SNAPSHOT.
func vh_take_snapshot() {
	w := 2
	r, env := vNewRaft("a", vRaftOpts{n: 1, w: w, shaped: true})
	s := env.logs
	vShapeCommit(r, "a", w)
	vAssume(vInvBasic(r, env))
	vAssume(vInvLog(r, env, w))
	r.state = Follower
	fsm := &mSnapFSM{snapFail: vChoose("snapFail", 0, 1) == 1, persistFail: vChoose("persistFail", 0, 1) == 1}
	r.fsm = fsm
	env.snaps.failOn = true
	r.configurations.committedIndex = vU64("committedIndex")
	vAssume(r.configurations.committedIndex <= r.configurations.latestIndex)
	if vChoose("uncommittedConfig", 0, 1) == 1 {
		// a configuration change is in flight: latest differs from committed
		r.configurations.committed = vConfig("committedcfg", 1, false)
		vAssume(r.configurations.committed.Servers[0].ID != r.configurations.latest.Servers[0].ID)
		vAssume(r.configurations.committedIndex < r.configurations.latestIndex)
	}
	// the FSM goroutine has applied up to lastApplied: feed it that entry so that its (lastIndex, lastTerm) are set
	applied := r.lastApplied
	// the FSM goroutine may lag behind lastApplied (batches handed over but not consumed yet): it has consumed
	// up to `fsmAt` = applied or applied-1; a snapshot is stamped with what the FSM has consumed
	fsmAt := applied - uint64(vChoose("fsmLag", 0, 1))
	hasApplied := s.has(fsmAt)
	var fsmIdx, fsmTerm uint64
	if hasApplied {
		fsmIdx, fsmTerm = fsmAt, s.term.Get(fsmAt)
		r.fsmMutateCh <- []*commitTuple{{&Log{Index: fsmAt, Term: fsmTerm, Type: LogCommand}, nil}}
	}
	cfg := r.conf.Load().(Config)
	cfg.TrailingLogs = uint64(vChoose("trailing", 0, 2))
	r.conf.Store(cfg)
	vGo(r.runFSM)
	vGo(r.runFollower)
	vTimerMode(0)
	pre := vSnap(r, env)
	preStore := s.clone()
	preCommitted := r.configurations.committed.Clone()
	preCommittedIndex := r.configurations.committedIndex
	vAssertNoPanic("C11.snapshot.no-panic")
	id, err := r.takeSnapshot()
	post := vSnap(r, env)
	created, closedOK, canceled := false, false, false
	var ci, ct uint64
	order := 0
	closeAt, deleteAt := -1, -1
	for i, c := range env.snaps.calls {
		switch c.op {
		case opSnapCreate:
			created, ci, ct = c.ok, c.a, c.b
		case opSnapClose:
			if c.ok {
				closedOK = true
				closeAt = i
			}
		case opSnapCancel:
			canceled = true
		}
		order = i
	}
	_ = order
	for i, c := range s.calls[len(preStore.calls):] {
		if c.op == opDeleteRange {
			deleteAt = i
		}
	}
	if !hasApplied {
		vCover("snapshot.nothing-applied")
		vAssert(err != nil && !created, "C11.snapshot.nothing-to-snapshot")
	}
	if err == nil {
		vCover("snapshot.taken")
		vAssert(created && closedOK && !canceled, "C11.snapshot.durable-before-success")
		vAssert(ci == fsmIdx && ct == fsmTerm, "C11.snapshot.stamped-with-fsm-position")
		vAssert(ci == fsmIdx && ct == fsmTerm, "C02.snapshot.index-is-what-the-fsm-consumed")
		sink := env.snaps.sinks[len(env.snaps.sinks)-1]
		vAssert(vSameServers(sink.meta.Configuration.Servers, preCommitted.Servers) && sink.meta.ConfigurationIndex == preCommittedIndex, "C11.snapshot.carries-committed-configuration")
		vAssert(preCommittedIndex <= fsmIdx, "C11.snapshot.refused-before-config-applied")
		vAssert(post.snapIdx == fsmIdx && post.snapTerm == fsmTerm, "C11.snapshot.last-snapshot-moves")
		vAssert(id == sink.meta.ID, "C11.snapshot.returns-id")
		base := vBase()
		for k := 1; k <= w; k++ {
			idx := base + uint64(k)
			vAssert(vImplies(vAnd(preStore.has(idx), idx > fsmIdx), s.has(idx)), "C11.snapshot.compaction-keeps-above-snapshot")
		}
		vAssert(fsm.snaps[0].released, "C11.snapshot.released")
		_ = closeAt
		_ = deleteAt
	} else {
		vCover("snapshot.failed")
		// a failed attempt moves nothing and deletes nothing; a created sink is cancelled unless its Close itself failed
		vAssert(post.snapIdx == pre.snapIdx && post.snapTerm == pre.snapTerm, "C11.snapshot.failure-keeps-last-snapshot")
		vAssert(deleteAt < 0 || closedOK, "C11.snapshot.failure-deletes-nothing")
		if fsm.persistFail && created {
			vAssert(canceled, "C11.snapshot.persist-failure-cancels")
		}
	}
	vAssert(post.applied == pre.applied && post.commit == pre.commit && post.term == pre.term, "C11.snapshot.frame")
	vReach("snapshot.end")
}

// vh_run_snapshots: the snapshot goroutine serving one user snapshot request,
// together with the real FSM goroutine and follower main loop: the future is
// always answered; on success it can open the snapshot that was taken.
func vh_run_snapshots() {
	w := 2
	r, env := vNewRaft("a", vRaftOpts{n: 1, w: w, shaped: true})
	s := env.logs
	vShapeCommit(r, "a", w)
	vAssume(vInvBasic(r, env))
	vAssume(vInvLog(r, env, w))
	r.state = Follower
	fsm := &mSnapFSM{snapFail: vChoose("snapFail", 0, 1) == 1, persistFail: vChoose("persistFail", 0, 1) == 1}
	r.fsm = fsm
	applied := r.lastApplied
	if s.has(applied) {
		r.fsmMutateCh <- []*commitTuple{{&Log{Index: applied, Term: s.term.Get(applied), Type: LogCommand}, nil}}
	}
	fut := &userSnapshotFuture{}
	fut.init()
	vGo(r.runFSM)
	vGo(r.runFollower)
	vGo(func() { r.userSnapshotCh <- fut })
	vTimerMode(0)
	vAssertNoPanic("C17.usersnapshot.no-panic")
	vRunUntilBlocked(r.runSnapshots)
	done, err := vFutureErr(&fut.deferError)
	vAssert(done, "C17.usersnapshot.future-answered")
	if done && err == nil {
		vCover("usersnapshot.ok")
		vAssert(fut.opener != nil && len(env.snaps.metas) == 1, "C11.usersnapshot.success-has-a-durable-snapshot")
		if fut.opener != nil {
			m, _, oerr := fut.opener()
			vAssert(oerr == nil && m.Index == applied, "C11.usersnapshot.opens-the-snapshot-taken")
		}
	} else {
		vCover("usersnapshot.failed")
		vAssert(r.lastSnapshotIndex <= applied, "C11.usersnapshot.failure-frame")
	}
	vReach("usersnapshot.end")
}
