//go:build verif

package raft

import "time"

// C11.COMPACT-ARITH: compactLogsWithTrailing with arbitrary 64-bit arguments
// on an arbitrary store.
func vh_compact_arith() {
	w := 3
	r, env := vNewRaft("a", vRaftOpts{n: 1, w: w})
	s := env.logs
	snapIdx, lastLogIdx, trailing := vU64("snapIdx"), vU64("lastLogIdx"), vU64("trailing")
	pre := s.clone()
	s.failOn = true
	err := r.compactLogsWithTrailing(snapIdx, lastLogIdx, trailing)
	s.failOn = false
	nDel := 0
	var dmin, dmax uint64
	delOK := false
	for _, c := range s.calls {
		if c.op == opDeleteRange {
			nDel++
			dmin, dmax, delOK = c.a, c.b, c.ok
		}
		vAssert(c.op == opDeleteRange || c.op == opFirstIndex, "C11.compact.only-first-and-delete")
	}
	vAssert(nDel <= 1, "C11.compact.at-most-one-delete")
	if nDel == 1 {
		vCover("compact.deleted")
		vAssert(dmin == pre.low, "C11.compact.from-first-index")
		vAssert(dmax <= snapIdx, "C11.compact.not-beyond-snapshot")
		vAssert(lastLogIdx > trailing, "C11.compact.no-underflow")
		vAssert(dmax <= lastLogIdx-trailing, "C11.compact.keeps-trailing")
		vAssert(dmin <= dmax, "C11.compact.nonempty-range")
		vAssert((err == nil) == delOK, "C11.compact.error-reported")
	} else {
		vCover("compact.nothing")
	}
	base := vBase()
	for k := 1; k <= w; k++ {
		idx := base + uint64(k)
		// every entry above the snapshot survives, and so do the newest `trailing` entries
		vAssert(vImplies(vAnd(pre.has(idx), idx > snapIdx), s.has(idx)), "C11.compact.above-snapshot-survives")
		vAssert(vImplies(vAnd(pre.has(idx), vAnd(lastLogIdx >= trailing, idx > lastLogIdx-trailing)), s.has(idx)), "C11.compact.trailing-survive")
		vAssert(vImplies(!pre.has(idx), !s.has(idx)), "C11.compact.creates-nothing")
	}
	if err != nil {
		vCover("compact.error")
	}
	vReach("compact.end")
}

// C11: removeOldLogs deletes exactly [first, last].
func vh_remove_old_logs() {
	w := 3
	r, env := vNewRaft("a", vRaftOpts{n: 1, w: w})
	s := env.logs
	pre := s.clone()
	s.failOn = true
	err := r.removeOldLogs()
	s.failOn = false
	for _, c := range s.calls {
		if c.op == opDeleteRange {
			vCover("removeold.deleted")
			vAssert(c.a == pre.low && c.b == pre.high, "C11.removeold.exact-range")
		}
	}
	if err == nil {
		vAssert(s.low == 0 && s.high == 0, "C11.removeold.empty-after")
	}
	vReach("removeold.end")
}

// C12.BACKOFF: backoff / cappedExponentialBackoff are bounded and never overflow.
func vh_backoff() {
	round := vU64("round")
	d := backoff(failureWait, round, maxFailureScale)
	vAssert(d >= failureWait && d <= failureWait*1024, "C12.backoff.bounded")
	// exact value: base * 2^(min(round,limit)-2) for min(...) > 2
	p := round
	if p > maxFailureScale {
		p = maxFailureScale
	}
	want := failureWait
	for i := uint64(3); i <= maxFailureScale; i++ {
		if i <= p {
			want *= 2
		}
	}
	vAssert(d == want, "C12.backoff.exact")
	base := time.Duration(vI64("base"))
	cp := time.Duration(vI64("cap"))
	vAssume(base > 0 && base <= time.Hour && cp > 0 && cp <= 24*time.Hour)
	limit := vU64("limit")
	vAssume(limit <= 16)
	c := cappedExponentialBackoff(base, round, limit, cp)
	vAssert(c <= cp && c > 0, "C12.backoff.capped")
	vAssert(c >= base || c == cp, "C12.backoff.not-below-base")
	vReach("backoff.end")
}
