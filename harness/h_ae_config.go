//go:build verif

package raft

// vh_ae_config: appendEntries with configuration entries: the follower's
// latest/committed configurations follow the log. A truncated uncommitted
// configuration falls back to the committed one (C07.TRUNC-FALLBACK), a received
// configuration entry becomes latest and the previous latest becomes committed,
// and the commit index passing latestIndex commits it (C07.COMMIT-CONFIG, follower side).
func vh_ae_config() {
	w := 3
	r, env := vNewRaft("f", vRaftOpts{n: 1, w: w})
	s := env.logs
	base := vBase()
	// follower log: base+1 Command (agreed), base+2 an UNCOMMITTED configuration entry = latest; snapshot at base
	t1, t2 := vU64("f.t1"), vU64("f.t2")
	vAssume(t1 <= t2 && t2 <= r.currentTerm && r.currentTerm < 1<<62)
	cfgCommitted := vConfig("cfgCommitted", 1, false)
	cfgLatest := vConfig("cfgLatest", 1, false)
	s.low, s.high = base+1, base+2
	s.present.Set(base+1, 1)
	s.present.Set(base+2, 1)
	s.present.Set(base+3, 0)
	s.term.Set(base+1, t1)
	s.term.Set(base+2, t2)
	s.typ.Set(base+1, uint64(LogCommand))
	s.typ.Set(base+2, uint64(LogConfiguration))
	s.data.Set(base+2, vBlobToCell(vEncodeConfiguration(cfgLatest)))
	r.lastSnapshotIndex, r.lastSnapshotTerm = base, vU64("f.snapTerm")
	vAssume(r.lastSnapshotTerm <= t1)
	r.lastLogIndex, r.lastLogTerm = base+2, t2
	r.commitIndex, r.lastApplied = base+1, base+1
	r.state = Follower
	r.configurations.latest, r.configurations.latestIndex = cfgLatest, base+2
	r.configurations.committed, r.configurations.committedIndex = cfgCommitted, base
	vAssume(vInvBasic(r, env))
	vAssume(cfgCommitted.Servers[0].ID != cfgLatest.Servers[0].ID)
	// the sender's entry at base+2: same term (a duplicate) or a different, later term; a Command or another configuration
	lt2 := vU64("L.t2")
	lcfg := vConfig("cfgNew", 1, false)
	vAssume(lcfg.Servers[0].ID != cfgLatest.Servers[0].ID && lcfg.Servers[0].ID != cfgCommitted.Servers[0].ID)
	isCfg := vChoose("L.entryIsConfig", 0, 1) == 1
	e := &Log{Index: base + 2, Term: lt2, Type: LogCommand, Data: vBlob("L.data")}
	if isCfg {
		e.Type = LogConfiguration
		e.Data = vEncodeConfiguration(lcfg)
	}
	a := &AppendEntriesRequest{
		RPCHeader: RPCHeader{ProtocolVersion: ProtocolVersionMax, ID: vBlob("a.id"), Addr: vBlob("a.addr")},
		Term:      r.currentTerm, PrevLogEntry: base + 1, PrevLogTerm: t1,
		Entries: []*Log{e}, LeaderCommitIndex: vU64("a.leaderCommit"),
	}
	vAssume(len(a.Addr) > 0 && lt2 >= t1 && lt2 <= a.Term)
	vAssume(a.LeaderCommitIndex <= base+2)
	// if the sender holds the same (index, term) it holds the same entry (log matching)
	if vChoose("duplicate", 0, 1) == 1 {
		vAssume(lt2 == t2)
		e.Type, e.Data = LogConfiguration, vBlobFromCell(s.data.Get(base+2))
		isCfg = false // nothing new is appended
	} else {
		vAssume(lt2 != t2)
	}
	conflict := lt2 != t2
	rpc, ch := vMakeRPC(a)
	vAssertNoPanic("C07.aeconfig.no-panic")
	r.appendEntries(rpc, a)
	out := <-ch
	resp := out.Response.(*AppendEntriesResponse)
	vAssert(resp.Success, "C07.aeconfig.accepted")
	c := &r.configurations
	if !conflict {
		vCover("aeconfig.duplicate")
		vAssert(c.latestIndex == base+2 && vSameServers(c.latest.Servers, cfgLatest.Servers), "C07.aeconfig.duplicate-keeps-latest")
	} else if isCfg {
		vCover("aeconfig.replaced-by-config")
		// the truncated uncommitted configuration is forgotten; the new one is latest, the fallback is (still) committed
		vAssert(c.latestIndex == base+2 && vSameServers(c.latest.Servers, lcfg.Servers), "C07.aeconfig.received-config-becomes-latest")
		if a.LeaderCommitIndex < base+2 || a.LeaderCommitIndex <= base+1 {
			vAssert(vSameServers(c.committed.Servers, cfgCommitted.Servers) && c.committedIndex == base, "C07.aeconfig.truncated-config-never-becomes-committed")
		}
	} else {
		vCover("aeconfig.replaced-by-command")
		vAssert(c.latestIndex == base && vSameServers(c.latest.Servers, cfgCommitted.Servers), "C07.aeconfig.truncation-falls-back-to-committed")
		vAssert(vSameServers(c.committed.Servers, cfgCommitted.Servers) && c.committedIndex == base, "C07.aeconfig.committed-untouched-by-truncation")
	}
	// commit index passing latestIndex commits the latest configuration
	if r.commitIndex >= c.latestIndex {
		vCover("aeconfig.latest-committed")
		vAssert(c.committedIndex == c.latestIndex && vSameServers(c.committed.Servers, c.latest.Servers), "C07.aeconfig.commit-passes-latest")
	}
	vAssert(c.committedIndex <= c.latestIndex, "C07.aeconfig.index-order")
	// the store entry at latestIndex (if above the snapshot) is that configuration entry
	if c.latestIndex > base {
		vAssert(s.has(c.latestIndex) && s.typ.Get(c.latestIndex) == uint64(LogConfiguration), "C07.aeconfig.latest-is-in-the-log")
	}
	vReach("aeconfig.end")
}

// vh_ae_config_append: a configuration entry appended right after the
// follower's latest (still uncommitted) configuration: the leader may only
// have appended it after the previous one was committed, so the previous
// latest becomes committed and the new entry latest.
func vh_ae_config_append() {
	w := 3
	r, env := vNewRaft("f", vRaftOpts{n: 1, w: w})
	s := env.logs
	base := vBase()
	t1 := vU64("f.t1")
	vAssume(t1 <= r.currentTerm && r.currentTerm < 1<<62)
	cfgCommitted := vConfig("cfgCommitted", 1, false)
	cfgLatest := vConfig("cfgLatest", 1, false)
	s.low, s.high = base+1, base+1
	s.present.Set(base+1, 1)
	s.present.Set(base+2, 0)
	s.present.Set(base+3, 0)
	s.term.Set(base+1, t1)
	s.typ.Set(base+1, uint64(LogConfiguration))
	s.data.Set(base+1, vBlobToCell(vEncodeConfiguration(cfgLatest)))
	r.lastSnapshotIndex, r.lastSnapshotTerm = base, vU64("f.snapTerm")
	vAssume(r.lastSnapshotTerm <= t1)
	r.lastLogIndex, r.lastLogTerm = base+1, t1
	r.commitIndex, r.lastApplied = base, base
	r.state = Follower
	r.configurations.latest, r.configurations.latestIndex = cfgLatest, base+1
	r.configurations.committed, r.configurations.committedIndex = cfgCommitted, base
	vAssume(vInvBasic(r, env))
	lcfg := vConfig("cfgNew", 1, false)
	vAssume(cfgCommitted.Servers[0].ID != cfgLatest.Servers[0].ID && lcfg.Servers[0].ID != cfgLatest.Servers[0].ID && lcfg.Servers[0].ID != cfgCommitted.Servers[0].ID)
	t2 := vU64("L.t2")
	a := &AppendEntriesRequest{
		RPCHeader: RPCHeader{ProtocolVersion: ProtocolVersionMax, ID: vBlob("a.id"), Addr: vBlob("a.addr")},
		Term:      r.currentTerm, PrevLogEntry: base + 1, PrevLogTerm: t1,
		Entries:           []*Log{{Index: base + 2, Term: t2, Type: LogConfiguration, Data: vEncodeConfiguration(lcfg)}},
		LeaderCommitIndex: vU64("a.leaderCommit"),
	}
	vAssume(len(a.Addr) > 0 && t2 >= t1 && t2 <= a.Term && a.LeaderCommitIndex <= base+2)
	rpc, ch := vMakeRPC(a)
	r.appendEntries(rpc, a)
	out := <-ch
	vAssert(out.Response.(*AppendEntriesResponse).Success, "C07.aeconfig.append-accepted")
	c := &r.configurations
	vAssert(c.latestIndex == base+2 && vSameServers(c.latest.Servers, lcfg.Servers), "C07.aeconfig.appended-config-is-latest")
	if a.LeaderCommitIndex < base+2 {
		vCover("aeconfig.previous-latest-committed")
		vAssert(c.committedIndex == base+1 && vSameServers(c.committed.Servers, cfgLatest.Servers), "C07.aeconfig.previous-latest-becomes-committed")
	} else {
		vCover("aeconfig.new-config-committed-at-once")
		vAssert(c.committedIndex == base+2 && vSameServers(c.committed.Servers, lcfg.Servers), "C07.aeconfig.commit-passes-latest")
	}
	vReach("aeconfig.append.end")
}
