//go:build verif

package raft

import (
	"io"

	hclog "github.com/hashicorp/go-hclog"
)

// C15: FileSnapshotStore over the engine's file-system model (engine/sym/fs.go).
// Real code executed: Create, Write, Close, Cancel, finalize, writeMeta, List,
// getSnapshots, readMeta, Open, ReapSnapshots, snapMetaSlice ordering.

type vSnapRec struct {
	id          string
	term, index uint64
	content     uint64 // content id written
}

func vMakeSnapshot(store *FileSnapshotStore, tag string, cancel bool, rec *vSnapRec) (sink SnapshotSink, err error) {
	rec.term, rec.index = vU64(tag+".term"), vU64(tag+".index")
	data := vBlob(tag + ".data")
	vAssume(len(data) > 0)
	rec.content = vBlobID(data)
	cfg := Configuration{Servers: []Server{{Suffrage: Voter, ID: "a", Address: "a"}}}
	sink, err = store.Create(SnapshotVersionMax, rec.index, rec.term, cfg, 1, nil)
	if err != nil {
		return
	}
	rec.id = sink.ID()
	if _, err = sink.Write(data); err != nil {
		return
	}
	if cancel {
		err = sink.Cancel()
	} else {
		err = sink.Close()
	}
	return
}

// newer(a,b): a sorts before b in List (newest first): (Term, Index, ID) descending
func vNewer(a, b vSnapRec) bool {
	if a.term != b.term {
		return a.term > b.term
	}
	if a.index != b.index {
		return a.index > b.index
	}
	return a.id > b.id
}

func vh_filesnap_crash() {
	const dir = "/data/snapshots"
	vFSMkdirAll(dir)
	retain := vChoose("retain", 1, 2)
	store := &FileSnapshotStore{path: dir, retain: retain, logger: hclog.NewNullLogger()}
	// pre-existing complete snapshots, created by the real code and fully durable
	nPre := vChoose("pre", 0, 1+vTier())
	var pres []vSnapRec
	for i := 0; i < nPre; i++ {
		var rec vSnapRec
		_, err := vMakeSnapshot(store, "pre", false, &rec)
		vAssume(err == nil)
		pres = append(pres, rec)
	}
	vFSSyncAll()
	// reaping at the end of each Close may already have removed some of them
	var kept []vSnapRec
	for _, p := range pres {
		newerCount := 0
		for _, q := range pres {
			if q.id != p.id && vNewer(q, p) {
				newerCount++
			}
		}
		if newerCount < retain {
			kept = append(kept, p)
		}
	}
	// the operation under test, with a crash before any of its file-system steps (0 = no crash)
	cancel := vChoose("cancel", 0, 1) == 1
	crash := vChoose("crashAt", 0, 18)
	if crash > 0 {
		vFSCrashAt(vFSOps() + crash)
	}
	var rec vSnapRec
	var opErr error
	returned := false
	vCatch(func() {
		_, opErr = vMakeSnapshot(store, "new", cancel, &rec)
		returned = true
	})
	crashed := vFSCrashed()
	if crashed {
		vCover("filesnap.crashed")
		vFSApplyCrash()
	} else {
		vFSCrashAt(0)
		vAssume(returned)
	}
	closeOK := returned && !crashed && !cancel && opErr == nil
	// ---- recovery: a fresh store over whatever is on disk ----
	store2 := &FileSnapshotStore{path: dir, retain: retain, logger: hclog.NewNullLogger()}
	list, err := store2.List()
	vAssert(err == nil, "C15.list.no-error")
	vAssert(len(list) <= retain, "C15.list.at-most-retain")
	newListed := false
	for i, m := range list {
		if i > 0 {
			prev := list[i-1]
			vAssert(prev.Term > m.Term || (prev.Term == m.Term && (prev.Index > m.Index || (prev.Index == m.Index && prev.ID > m.ID))), "C15.list.newest-first")
		}
		// every listed snapshot opens, checksum verified, with exactly the content that was written
		meta, rc, oerr := store2.Open(m.ID)
		vAssert(oerr == nil && meta != nil, "C15.list.listed-snapshot-opens")
		if oerr != nil {
			continue
		}
		var want vSnapRec
		found := false
		for _, p := range pres {
			if p.id == m.ID {
				want, found = p, true
			}
		}
		if m.ID == rec.id && rec.id != "" {
			want, found = rec, true
			newListed = true
		}
		vAssert(found, "C15.list.only-known-snapshots")
		if found {
			vAssert(m.Term == want.term && m.Index == want.index, "C15.list.meta-as-written")
			bf := rc.(*bufferedFile)
			vAssert(vFileContent(bf) == want.content, "C15.open.content-as-written")
		}
	}
	if closeOK {
		vCover("filesnap.closed-ok")
		// durable and listed, unless `retain` newer snapshots exist
		newerThanNew := 0
		for _, p := range kept {
			if vNewer(p, rec) {
				newerThanNew++
			}
		}
		if newerThanNew < retain {
			vAssert(newListed, "C15.close.durable-and-listed")
		}
	}
	if cancel && !crashed {
		vCover("filesnap.cancelled")
		vAssert(!newListed, "C15.cancel.never-listed")
	}
	if crashed && !closeOK && newListed {
		vCover("filesnap.interrupted-but-complete") // allowed only when complete: checked by the Open assertions above
	}
	// retention never removes the newest: every pre-existing snapshot among the `retain` newest of what is listed stays listed
	for _, p := range kept {
		newerCount := 0
		for _, q := range kept {
			if q.id != p.id && vNewer(q, p) {
				newerCount++
			}
		}
		if newListed && vNewer(rec, p) {
			newerCount++
		}
		if newerCount < retain {
			stillThere := false
			for _, m := range list {
				if m.ID == p.id {
					stillThere = true
				}
			}
			vAssert(stillThere, "C15.retention.newest-survive")
		}
	}
	_ = io.EOF
	vReach("filesnap.end")
}

// vh_filesnap_corrupt: bit rot in a durable state or metadata file: Open never
// hands out content that differs from what was written (it fails instead), and
// a snapshot with unreadable metadata is not listed.
func vh_filesnap_corrupt() {
	const dir = "/data/snapshots"
	vFSMkdirAll(dir)
	store := &FileSnapshotStore{path: dir, retain: 2, logger: hclog.NewNullLogger()}
	var rec vSnapRec
	_, err := vMakeSnapshot(store, "s", false, &rec)
	vAssume(err == nil)
	vFSSyncAll()
	which := "state.bin"
	if vChoose("corruptMeta", 0, 1) == 1 {
		which = "meta.json"
	}
	vAssert(vFSCorruptFile(dir+"/"+rec.id+"/"+which), "C15.corrupt.file-exists")
	store2 := &FileSnapshotStore{path: dir, retain: 2, logger: hclog.NewNullLogger()}
	list, lerr := store2.List()
	vAssert(lerr == nil, "C15.corrupt.list-no-error")
	for _, m := range list {
		vAssert(m.ID == rec.id && m.Term == rec.term && m.Index == rec.index, "C15.corrupt.listed-meta-as-written")
	}
	meta, rc, oerr := store2.Open(rec.id)
	if oerr == nil {
		vCover("filesnap.corrupt-open-ok") // the fresh content may coincide with the original
		vAssert(meta != nil && vFileContent(rc.(*bufferedFile)) == rec.content, "C15.corrupt.open-never-returns-wrong-content")
	} else {
		vCover("filesnap.corrupt-open-fails")
	}
	vReach("filesnap.corrupt.end")
}
