//go:build verif

package raft

import (
	"io"
	"time"
)

// vh_replicate_step: one AppendEntries round of replicateTo on an arbitrary
// leader (log in a window), with an arbitrary response from the follower.
// C01.LEADER-TERM, C04.LEADER-BUILD, C05.FOLLOWER-MATCH, C12.BACKTRACK.
func vh_replicate_step() {
	w := 3
	r, env := vNewRaft("L", vRaftOpts{n: 2, w: w, shaped: true})
	vAssume(vInvBasic(r, env))
	vAssume(vInvLog(r, env, w))
	vMakeLeader(r, "L", 0)
	base := vBase()
	st := env.logs
	peer := r.configurations.latest.Servers[1]
	s := r.leaderState.replState[peer.ID]
	// the replication routine may outlive this server's leadership for a moment: the server's own term may
	// already be higher (it adopted a newer term in an RPC handler) while the routine still runs
	laterTerm := vU64("L.laterTerm")
	vAssume(laterTerm >= s.currentTerm && laterTerm < 1<<62)
	r.currentTerm, env.stable.term = laterTerm, laterTerm
	// the follower holds one slot iff it is a voter
	s.failures = 0
	nextOff := vChoose("nextOff", 0, w+1)
	s.nextIndex = base + uint64(nextOff)
	vAssume(s.nextIndex >= 1)
	lastIndex := r.getLastIndex()
	vAssume(s.nextIndex <= lastIndex+1)
	maxAE := vChoose("maxAE", 1, 2)
	cfg := r.conf.Load().(Config)
	cfg.MaxAppendEntries = maxAE
	r.conf.Store(cfg)
	// a pending verify future to observe notifyAll
	vf := &verifyFuture{}
	vf.init()
	vf.quorumSize = 100
	vf.notifyCh = r.verifyCh
	s.notify[vf] = struct{}{}
	var sent *AppendEntriesRequest
	nRPC := 0
	respTerm, respOK, respLast, respNoRetry := vU64("resp.term"), vBool("resp.success"), vU64("resp.lastLog"), vBool("resp.noRetry")
	vAssume(respLast < 1<<62)
	rpcFail := vBool("rpc.fail")
	env.trans.onAppend = func(id ServerID, a *AppendEntriesRequest, resp *AppendEntriesResponse) error {
		nRPC++
		cp := *a
		sent = &cp
		vAssert(id == peer.ID, "C04.repl.rpc-to-own-peer")
		if rpcFail {
			return errInjected
		}
		resp.Term, resp.Success, resp.LastLog, resp.NoRetryBackoff = respTerm, respOK, respLast, respNoRetry
		return nil
	}
	env.trans.onSnapshot = nil
	s.stopCh <- lastIndex // stop after one round
	preNext := s.nextIndex
	preMatch, hadSlot := r.leaderState.commitment.matchIndexes[peer.ID]
	preCommit := r.leaderState.commitment.commitIndex
	needSnap := false
	panicked := vCatch(func() { r.replicateTo(s, lastIndex) })
	vAssert(!panicked, "C12.repl.no-panic")
	if len(env.snaps.calls) > 0 {
		needSnap = true // took the SEND_SNAP branch (the model snapshot store is empty here)
	}
	if needSnap {
		vCover("repl.needs-snapshot")
		// ErrLogNotFound exactly when the needed previous entry / first entry is absent
		prevIdx := preNext - 1
		prevAbsent := vAnd(preNext != 1, vAnd(prevIdx != r.lastSnapshotIndex, !st.has(prevIdx)))
		someAbsent := false
		for i := 0; i < maxAE; i++ {
			idx := preNext + uint64(i)
			someAbsent = vOr(someAbsent, vAnd(idx <= lastIndex, !st.has(idx)))
		}
		vAssert(vOr(prevAbsent, someAbsent), "C04.repl.snapshot-only-when-entry-missing")
		vReach("repl.end")
		return
	}
	vAssert(nRPC == 1, "C12.repl.one-rpc-per-round")
	a := sent
	// C01.LEADER-TERM: the request carries the term of this leadership
	vAssert(a.Term == s.currentTerm, "C01.repl.request-carries-term-of-this-leadership")
	vAssert(a.LeaderCommitIndex == r.commitIndex, "C05.repl.request-carries-commit-index")
	// C04.LEADER-BUILD: strong well-formedness of the request
	if preNext == 1 {
		vAssert(a.PrevLogEntry == 0 && a.PrevLogTerm == 0, "C04.repl.prev-zero")
	} else if preNext-1 == r.lastSnapshotIndex {
		vCover("repl.prev-is-snapshot")
		vAssert(a.PrevLogEntry == r.lastSnapshotIndex && a.PrevLogTerm == r.lastSnapshotTerm, "C04.repl.prev-snapshot-boundary")
	} else {
		vAssert(a.PrevLogEntry == preNext-1 && st.has(preNext-1) && a.PrevLogTerm == st.term.Get(preNext-1), "C04.repl.prev-from-log")
	}
	vAssert(len(a.Entries) <= maxAE, "C04.repl.at-most-max-append-entries")
	for i, e := range a.Entries {
		idx := preNext + uint64(i)
		vAssert(e.Index == idx && idx <= lastIndex, "C04.repl.entries-contiguous-not-past-last")
		vAssert(st.has(idx) && e.Term == st.term.Get(idx) && uint64(e.Type) == st.typ.Get(idx) && vBlobToCell(e.Data) == st.data.Get(idx), "C04.repl.entries-from-log")
	}
	wantN := uint64(0)
	if preNext <= lastIndex {
		wantN = lastIndex - preNext + 1
		if wantN > uint64(maxAE) {
			wantN = uint64(maxAE)
		}
	}
	vAssert(uint64(len(a.Entries)) == wantN, "C04.repl.batch-size")
	postMatch := r.leaderState.commitment.matchIndexes[peer.ID]
	if rpcFail {
		vCover("repl.rpc-error")
		vAssert(s.nextIndex == preNext && postMatch == preMatch, "C05.repl.rpc-error-no-effect")
		vAssert(s.failures == 1, "C12.repl.failure-counted")
	} else if respTerm > s.currentTerm {
		vCover("repl.stale-term")
		vAssert(len(s.stepDown) == 1, "C01.repl.newer-term-steps-down")
		vAssert(postMatch == preMatch && s.nextIndex == preNext, "C05.repl.stale-term-no-match")
		vAssert(len(s.notify) == 0 && vf.notifyCh == nil, "C09.repl.stale-term-votes-verify-down")
	} else if respOK {
		vCover("repl.success")
		if len(a.Entries) > 0 {
			last := a.Entries[len(a.Entries)-1].Index
			vAssert(s.nextIndex == last+1, "C12.repl.next-index-advances")
			if hadSlot {
				vAssert(postMatch == vIte64(last > preMatch, last, preMatch), "C05.repl.match-is-last-entry-sent")
			}
		} else {
			vAssert(s.nextIndex == preNext && postMatch == preMatch, "C05.repl.heartbeat-like-no-match")
		}
		vAssert(hadSlot || len(r.leaderState.commitment.matchIndexes) == 1, "C05.repl.nonvoter-gets-no-slot")
		vAssert(s.failures == 0, "C12.repl.failures-cleared")
	} else {
		vCover("repl.rejected")
		want := preNext - 1
		if respLast+1 < want {
			want = respLast + 1
		}
		if want < 1 {
			want = 1
		}
		vAssert(s.nextIndex == want, "C12.repl.backtrack-rule")
		vAssert(s.nextIndex < preNext || preNext == 1, "C12.repl.backtrack-makes-progress")
		vAssert(s.nextIndex >= 1, "C12.repl.next-index-positive")
		vAssert(postMatch == preMatch && r.leaderState.commitment.commitIndex == preCommit, "C05.repl.rejected-no-match")
	}
	vAssert(r.leaderState.commitment.commitIndex >= preCommit, "C05.repl.commit-mono")
	vReach("repl.end")
}

// vh_send_snapshot: sendLatestSnapshot on an arbitrary leader whose snapshot
// store holds 0..2 snapshots, with an arbitrary follower response.
// C12 (progress after a snapshot), C05.FOLLOWER-MATCH, C01.LEADER-TERM, C11 (what is shipped).
func vh_send_snapshot() {
	r, env := vNewRaft("L", vRaftOpts{n: 2, w: 1, shaped: true})
	vAssume(vInvBasic(r, env))
	vMakeLeader(r, "L", 0)
	peer := r.configurations.latest.Servers[1]
	s := r.leaderState.replState[peer.ID]
	s.failures = vU64("failures")
	vAssume(s.failures < 1<<40)
	laterTerm := vU64("L.laterTerm")
	vAssume(laterTerm >= s.currentTerm && laterTerm < 1<<62)
	r.currentTerm, env.stable.term = laterTerm, laterTerm
	preNext := s.nextIndex
	nSnap := vChoose("snapshots", 0, 2)
	cfg := vConfig("snapcfg", 1, false)
	for i := 0; i < nSnap; i++ {
		id := "snapA"
		if i == 1 {
			id = "snapB"
		}
		env.snaps.metas = append(env.snaps.metas, &SnapshotMeta{Version: SnapshotVersionMax, ID: id, Index: vU64("snap.index"), Term: vU64("snap.term"),
			Configuration: cfg.Clone(), ConfigurationIndex: vU64("snap.cfgIndex"), Size: vI64("snap.size")})
	}
	env.snaps.failOn = true
	vf := &verifyFuture{}
	vf.init()
	vf.quorumSize = 100
	vf.notifyCh = r.verifyCh
	s.notify[vf] = struct{}{}
	respTerm, respOK, rpcFail := vU64("resp.term"), vBool("resp.success"), vBool("rpc.fail")
	var sent *InstallSnapshotRequest
	nRPC := 0
	env.trans.onSnapshot = func(id ServerID, a *InstallSnapshotRequest, resp *InstallSnapshotResponse, data io.Reader) error {
		nRPC++
		cp := *a
		sent = &cp
		vAssert(id == peer.ID, "C12.snap.rpc-to-own-peer")
		if rpcFail {
			return errInjected
		}
		resp.Term, resp.Success = respTerm, respOK
		return nil
	}
	preMatch, hadSlot := r.leaderState.commitment.matchIndexes[peer.ID]
	preFailures := s.failures
	stop, err := r.sendLatestSnapshot(s)
	postMatch := r.leaderState.commitment.matchIndexes[peer.ID]
	if nRPC == 0 {
		vCover("snap.not-sent")
		// no snapshot, or the store failed: an error, no state change
		vAssert(err != nil && !stop && s.nextIndex == preNext && postMatch == preMatch, "C12.snap.no-snapshot-no-effect")
		vReach("snap.end")
		return
	}
	vAssert(nRPC == 1, "C12.snap.one-rpc")
	m := env.snaps.metas[0] // List returns newest first
	vAssert(sent.LastLogIndex == m.Index && sent.LastLogTerm == m.Term && sent.ConfigurationIndex == m.ConfigurationIndex && sent.Size == m.Size && sent.SnapshotVersion == m.Version, "C11.snap.ships-newest-snapshot-meta")
	vAssert(sent.Term == s.currentTerm, "C01.snap.request-carries-term-of-this-leadership")
	if rpcFail {
		vCover("snap.rpc-error")
		vAssert(err != nil && !stop && s.nextIndex == preNext && postMatch == preMatch && s.failures == preFailures+1, "C12.snap.rpc-error-counted-no-effect")
	} else if respTerm > sent.Term {
		vCover("snap.stale-term")
		vAssert(stop && len(s.stepDown) == 1 && s.nextIndex == preNext && postMatch == preMatch, "C01.snap.newer-term-steps-down")
		// a leader that ignores the higher term in a refusal re-sends the same snapshot for ever and the follower never catches up
		vAssert(stop && len(s.stepDown) == 1, "C12.snap.newer-term-in-refusal-ends-this-leadership")
		vAssert(vf.notifyCh == nil, "C09.snap.stale-term-votes-verify-down")
	} else if respOK {
		vCover("snap.success")
		// progress: the next index moves past the snapshot, so the same snapshot is not sent again
		vAssert(!stop && err == nil && s.nextIndex == m.Index+1, "C12.snap.next-index-past-snapshot")
		if hadSlot {
			vAssert(postMatch == vIte64(m.Index > preMatch, m.Index, preMatch), "C05.snap.match-is-snapshot-index")
		}
		vAssert(s.failures == 0, "C12.snap.failures-cleared")
	} else {
		vCover("snap.rejected")
		vAssert(!stop && err == nil && s.nextIndex == preNext && postMatch == preMatch && s.failures == preFailures+1, "C12.snap.rejected-counted-no-effect")
	}
	vReach("snap.end")
}

// vh_heartbeat: one round of the heartbeat loop with an arbitrary follower
// answer. C09 (the verify vote is the response's own Success), C13 (last
// contact moves only on a response), C01.LEADER-TERM.
func vh_heartbeat() {
	r, env := vNewRaft("L", vRaftOpts{n: 2, w: 1, shaped: true})
	vAssume(vInvBasic(r, env))
	vMakeLeader(r, "L", 0)
	peer := r.configurations.latest.Servers[1]
	s := r.leaderState.replState[peer.ID]
	vf := &verifyFuture{}
	vf.init()
	vf.votes, vf.quorumSize = 1, 3 // one more acknowledgement does not decide it
	vf.notifyCh = r.verifyCh
	s.notify[vf] = struct{}{}
	s.notifyCh <- struct{}{}
	laterTerm := vU64("L.laterTerm")
	vAssume(laterTerm >= s.currentTerm && laterTerm < 1<<62)
	r.currentTerm, env.stable.term = laterTerm, laterTerm
	vAssume(!s.lastContact.After(time.Now())) // contacts lie in the past
	preContact := vTimeNs(s.lastContact)
	respTerm, respOK, rpcFail := vU64("resp.term"), vBool("resp.success"), vBool("rpc.fail")
	nRPC := 0
	env.trans.onAppend = func(id ServerID, a *AppendEntriesRequest, resp *AppendEntriesResponse) error {
		nRPC++
		vAssert(id == peer.ID && a.Term == s.currentTerm, "C01.heartbeat.carries-term-of-this-leadership")
		vAssert(len(a.Entries) == 0 && a.LeaderCommitIndex == 0 && a.PrevLogEntry == 0, "C05.heartbeat.carries-no-log-claims")
		// a heartbeat skips the follower's log check (no previous entry), so it must not carry a commit index
		vAssert(a.LeaderCommitIndex == 0, "C02.heartbeat.carries-no-commit-index")
		if rpcFail {
			return errInjected
		}
		resp.Term, resp.Success = respTerm, respOK
		return nil
	}
	vTimerMode(0)
	stopCh := make(chan struct{})
	vRunUntilBlocked(func() { r.heartbeat(s, stopCh) })
	vAssert(nRPC == 1, "C09.heartbeat.one-rpc-per-notify")
	_, stillWaiting := s.notify[vf]
	if rpcFail {
		vCover("heartbeat.rpc-error")
		vAssert(stillWaiting && vf.votes == 1 && vf.notifyCh != nil, "C09.heartbeat.error-is-no-acknowledgement")
		vAssert(vTimeNs(s.lastContact) == preContact, "C13.heartbeat.error-does-not-refresh-contact")
	} else {
		vAssert(!stillWaiting, "C09.heartbeat.future-voted-once")
		vAssert(vTimeNs(s.lastContact) >= preContact, "C13.heartbeat.contact-refreshed")
		if respOK {
			vCover("heartbeat.ack")
			vAssert(vf.votes == 2 && vf.notifyCh != nil, "C09.heartbeat.success-counts-one-vote")
		} else {
			vCover("heartbeat.nack")
			vAssert(vf.votes == 1 && vf.notifyCh == nil, "C09.heartbeat.refusal-fails-the-future")
		}
	}
	vReach("heartbeat.end")
}

// ---- pipeline ----

type mAppendFuture struct {
	start time.Time
	req   *AppendEntriesRequest
	resp  *AppendEntriesResponse
}

func (f *mAppendFuture) Error() error                     { return nil }
func (f *mAppendFuture) Start() time.Time                 { return f.start }
func (f *mAppendFuture) Request() *AppendEntriesRequest   { return f.req }
func (f *mAppendFuture) Response() *AppendEntriesResponse { return f.resp }

type mPipeline struct {
	ch     chan AppendFuture
	closed bool
	sent   []*AppendEntriesRequest
}

func (p *mPipeline) AppendEntries(a *AppendEntriesRequest, resp *AppendEntriesResponse) (AppendFuture, error) {
	p.sent = append(p.sent, a)
	return &mAppendFuture{req: a, resp: resp}, nil
}
func (p *mPipeline) Consumer() <-chan AppendFuture { return p.ch }
func (p *mPipeline) Close() error                 { p.closed = true; return nil }

// vh_pipeline_decode: pipelineDecode consumes one pipelined response.
// C05.FOLLOWER-MATCH (pipeline path), C01 (stale term), C12.
func vh_pipeline_decode() {
	r, env := vNewRaft("L", vRaftOpts{n: 2, w: 1, shaped: true})
	vAssume(vInvBasic(r, env))
	vMakeLeader(r, "L", 0)
	peer := r.configurations.latest.Servers[1]
	s := r.leaderState.replState[peer.ID]
	vAssume(!s.lastContact.After(time.Now()))
	nEntries := vChoose("entries", 0, 2)
	req := &AppendEntriesRequest{Term: s.currentTerm}
	first := vU64("first")
	vAssume(first >= 1 && first < 1<<62)
	for i := 0; i < nEntries; i++ {
		req.Entries = append(req.Entries, &Log{Index: first + uint64(i), Term: s.currentTerm})
	}
	resp := &AppendEntriesResponse{Term: vU64("resp.term"), Success: vBool("resp.success"), LastLog: vU64("resp.lastLog")}
	p := &mPipeline{ch: make(chan AppendFuture, 1)}
	p.ch <- &mAppendFuture{start: time.Now(), req: req, resp: resp}
	vf := &verifyFuture{}
	vf.init()
	vf.votes, vf.quorumSize = 1, 3
	vf.notifyCh = r.verifyCh
	s.notify[vf] = struct{}{}
	preNext := s.nextIndex
	preMatch, hadSlot := r.leaderState.commitment.matchIndexes[peer.ID]
	preCommit := r.leaderState.commitment.commitIndex
	stopCh, finishCh := make(chan struct{}), make(chan struct{})
	vRunUntilBlocked(func() { r.pipelineDecode(s, p, stopCh, finishCh) })
	postMatch := r.leaderState.commitment.matchIndexes[peer.ID]
	if resp.Term > req.Term {
		vCover("pipeline.stale-term")
		vAssert(len(s.stepDown) == 1 && finishCh != nil, "C01.pipeline.newer-term-steps-down")
		vAssert(postMatch == preMatch && s.nextIndex == preNext, "C05.pipeline.stale-term-no-match")
		vAssert(vf.notifyCh == nil, "C09.pipeline.stale-term-votes-verify-down")
	} else if !resp.Success {
		vCover("pipeline.rejected")
		// a rejected pipelined request is not an acknowledgement
		vAssert(postMatch == preMatch && r.leaderState.commitment.commitIndex == preCommit, "C05.pipeline.rejected-is-no-ack")
		vAssert(s.nextIndex == preNext, "C12.pipeline.rejected-keeps-next-index")
		vAssert(vf.votes == 1, "C09.pipeline.rejected-is-no-verify-vote")
	} else {
		vCover("pipeline.success")
		if nEntries > 0 {
			last := first + uint64(nEntries) - 1
			vAssert(s.nextIndex == last+1, "C12.pipeline.next-index-advances")
			if hadSlot {
				vAssert(postMatch == vIte64(last > preMatch, last, preMatch), "C05.pipeline.match-is-last-entry-sent")
			}
		} else {
			vAssert(postMatch == preMatch && s.nextIndex == preNext, "C05.pipeline.empty-request-no-match")
		}
		vAssert(vf.votes == 2, "C09.pipeline.success-counts-one-vote")
	}
	vAssert(r.leaderState.commitment.commitIndex >= preCommit, "C05.pipeline.commit-mono")
	vReach("pipeline.end")
}

// vh_elect_self: electSelf with every stable-store write failing or not; a
// failure models a crash at the same point (the durable image is the same).
// The durable invariant must hold on every image. C06.CRASH (election side), C01.SELF-VOTE.
func vh_elect_self() {
	r, env := vNewRaft("c", vRaftOpts{n: 1})
	vAssume(vInvBasic(r, env))
	r.localID = r.configurations.latest.Servers[0].ID
	r.localAddr = r.configurations.latest.Servers[0].Address
	r.state = Candidate
	st := env.stable
	st.failOn = true
	pre := vSnap(r, env)
	preVoteCandSelf := vBlobEq(st.voteCand, []byte(r.localAddr))
	_ = preVoteCandSelf
	var ch <-chan *voteResult
	panicked := vCatch(func() { ch = r.electSelf() })
	// the durable image after any prefix of the writes: never a vote record of a term the term record has not reached
	vAssert(st.voteTerm <= st.term, "C06.elect.durable-vote-term-le-current-term")
	vAssert(st.term >= pre.stTerm && st.term <= pre.stTerm+1, "C06.elect.term-bumped-by-at-most-one")
	// order of durable writes: the term first, then the vote record
	termAt, voteAt := -1, -1
	for i, c := range st.calls {
		if c.ok && c.op == opStableSetU64 && c.a == 1 && termAt < 0 {
			termAt = i
		}
		if c.ok && (c.op == opStableSet || (c.op == opStableSetU64 && c.a == 2)) && voteAt < 0 {
			voteAt = i
		}
	}
	vAssert(voteAt < 0 || (termAt >= 0 && termAt < voteAt), "C06.elect.term-durable-before-vote")
	vAssert(voteAt < 0 || (termAt >= 0 && termAt < voteAt), "C01.elect.term-durable-before-vote")
	if panicked {
		vCover("elect.term-write-failed")
		vAssert(st.term == pre.stTerm && st.voteTerm == pre.stVoteTerm && vSameBlob(st.voteCand, pre.stVoteCand), "C06.elect.failed-term-write-changes-nothing")
	} else if ch != nil && len(ch) == 1 {
		vCover("elect.self-vote-counted")
		// the self vote is enqueued only after it is durable
		vAssert(st.voteTerm == pre.term+1 && vBlobEq(st.voteCand, []byte(r.localAddr)) && st.term == pre.term+1, "C01.elect.self-vote-durable-before-counted")
	} else {
		vCover("elect.self-vote-not-counted")
	}
	vReach("elect.end")
}

// vh_ae_faults: appendEntries with failing log-store calls (GetLog, DeleteRange,
// StoreLogs). A failed write is never acknowledged, and whatever the cached
// last-log position is afterwards, it never names an entry of the store with a
// different term (the previous-entry fast path trusts it).
func vh_ae_faults() {
	w := 2
	r, env := vNewRaft("f", vRaftOpts{n: 1, w: w, shaped: true})
	s := env.logs
	l := vNewPeerLog("L", w)
	vAssume(vInvBasic(r, env))
	vAssume(vInvLog(r, env, w))
	vAssume(vLogMatching(r, s, l, w))
	vAssume(r.state == Follower)
	a, sh := vBuildAE(l, "a", w)
	vAssume(a.Term == r.currentTerm)
	vAssume(len(a.Addr) > 0)
	a.LeaderCommitIndex = 0
	base := vBase()
	// LC(L,F): what F holds as committed / applied / snapshotted is in the sender's log, identical (as in vh_ae_log)
	for k := 1; k <= w; k++ {
		idx := base + uint64(k)
		vAssume(vImplies(vAnd(idx <= r.commitIndex, s.has(idx)), vAnd(k <= l.len, vSameAt(s, l, k))))
		vAssume(vImplies(vAnd(idx <= r.lastApplied, s.has(idx)), vAnd(k <= l.len, vSameAt(s, l, k))))
		vAssume(vImplies(vAnd(idx <= r.configurations.committedIndex, s.has(idx)), vAnd(k <= l.len, vSameAt(s, l, k))))
	}
	vAssume(vImplies(r.commitIndex > base, r.commitIndex <= base+uint64(l.len)))
	vAssume(r.lastApplied <= base+uint64(l.len))
	vAssume(r.lastSnapshotIndex <= base+uint64(l.len))
	for k := 0; k <= l.len; k++ {
		vAssume(vImplies(r.lastSnapshotIndex == base+uint64(k), l.termAtOff(k) == r.lastSnapshotTerm))
	}
	pre := vSnap(r, env)
	s.failOn = true
	rpc, ch := vMakeRPC(a)
	panicked := vCatch(func() { r.appendEntries(rpc, a) })
	s.failOn = false
	vAssert(!panicked, "C04.aefault.no-panic")
	if panicked {
		return
	}
	out := <-ch
	resp := out.Response.(*AppendEntriesResponse)
	stored, failedWrite := false, false
	for _, c := range s.calls {
		if c.op == opStoreLogs || c.op == opDeleteRange {
			if c.ok {
				stored = stored || c.op == opStoreLogs
			} else {
				failedWrite = true
			}
		}
	}
	if failedWrite {
		vCover("aefault.write-failed")
		vAssert(!resp.Success, "C03.aefault.failed-write-never-acked")
		vAssert(!resp.Success, "C04.aefault.failed-write-never-acked")
	}
	if resp.Success && sh.n > 0 {
		for k := sh.prevOff + 1; k <= sh.prevOff+sh.n; k++ {
			idx := base + uint64(k)
			vAssert(vOr(s.has(idx), idx <= r.lastSnapshotIndex), "C03.aefault.acked-entries-are-stored")
		}
	}
	// whatever failed, the follower is left in a state later RPCs can repair: the log invariant the convergence
	// obligations start from (C12 quantifies over every fault sequence that precedes the quiet period)
	truncatedThenStoreFailed := false
	sawTrunc := false
	for _, c := range s.calls {
		if c.op == opDeleteRange && c.ok {
			sawTrunc = true
		}
		if c.op == opStoreLogs && !c.ok && sawTrunc {
			truncatedThenStoreFailed = true
		}
	}
	if truncatedThenStoreFailed {
		vCover("aefault.truncated-then-store-failed")
	}
	for i, b := range vInvLogClauses(r, env, w) {
		if i == 6 {
			continue // configuration indexes: vh_ae_config
		}
		vAssert(b, "C12.aefault.inv-log."+vInvLogNames[i])
	}
	// the cache never claims a term the store contradicts
	li, lt := r.getLastLog()
	vAssert(vImplies(s.has(li), s.term.Get(li) == lt), "C04.aefault.cached-last-log-term-matches-store")
	vAssert(r.commitIndex == pre.commit && r.lastApplied == pre.applied, "C05.aefault.no-commit-without-leader-commit")
	vReach("aefault.end")
}

// vh_heartbeat_readdress: two heartbeat rounds with the follower re-addressed in between (the real
// startStopReplication refreshes the replication routine's peer): the second heartbeat goes to the new
// address, so a follower that is only reachable at its old address no longer refreshes the lease. C13.
func vh_heartbeat_readdress() {
	r, env := vNewRaft("L", vRaftOpts{n: 2, w: 1, shaped: true})
	vAssume(vInvBasic(r, env))
	vMakeLeader(r, "L", 0)
	peer := r.configurations.latest.Servers[1]
	s := r.leaderState.replState[peer.ID]
	s.notifyCh <- struct{}{}
	var targets []ServerAddress
	env.trans.onAppend = func(id ServerID, a *AppendEntriesRequest, resp *AppendEntriesResponse) error {
		targets = append(targets, env.trans.lastTarget)
		resp.Term, resp.Success = a.Term, true
		return nil
	}
	vTimerMode(0)
	stopCh := make(chan struct{})
	vRunUntilBlocked(func() { r.heartbeat(s, stopCh) })
	newAddr := ServerAddress(vStr("newAddr"))
	vAssume(newAddr != "" && newAddr != peer.Address && newAddr != r.localAddr)
	r.configurations.latest.Servers[1].Address = newAddr
	r.startStopReplication()
	vAssert(s.peer.Address == newAddr, "C13.readdress.replication-routine-learns-new-address")
	s.notifyCh <- struct{}{}
	vQuiesce()
	vAssert(len(targets) == 2, "C13.readdress.one-heartbeat-per-notify")
	if len(targets) == 2 {
		vAssert(targets[0] == peer.Address, "C13.readdress.first-heartbeat-to-old-address")
		vAssert(targets[1] == newAddr, "C13.readdress.heartbeat-follows-readdressed-peer")
	}
	vReach("readdress.end")
}
