//go:build verif

package raft

import (
	"io"
	"time"
)

// vh_replicate_step: one AppendEntries round of replicateTo on an arbitrary
// leader (log in a window), with an arbitrary response from the follower.
// C01.LEADER-TERM, C04.LEADER-BUILD, C05.FOLLOWER-MATCH, C12.BACKTRACK.
func vh_replicate_step() {
	w := 3
	r, env := vNewRaft("L", vRaftOpts{n: 2, w: w, shaped: true})
	vAssume(vInvBasic(r, env))
	vAssume(vInvLog(r, env, w))
	vMakeLeader(r, "L", 0)
	base := vBase()
	st := env.logs
	peer := r.configurations.latest.Servers[1]
	s := r.leaderState.replState[peer.ID]
	// the follower holds one slot iff it is a voter
	s.failures = 0
	nextOff := vChoose("nextOff", 0, w+1)
	s.nextIndex = base + uint64(nextOff)
	vAssume(s.nextIndex >= 1)
	lastIndex := r.getLastIndex()
	vAssume(s.nextIndex <= lastIndex+1)
	maxAE := vChoose("maxAE", 1, 2)
	cfg := r.conf.Load().(Config)
	cfg.MaxAppendEntries = maxAE
	r.conf.Store(cfg)
	// a pending verify future to observe notifyAll
	vf := &verifyFuture{}
	vf.init()
	vf.quorumSize = 100
	vf.notifyCh = r.verifyCh
	s.notify[vf] = struct{}{}
	var sent *AppendEntriesRequest
	nRPC := 0
	respTerm, respOK, respLast, respNoRetry := vU64("resp.term"), vBool("resp.success"), vU64("resp.lastLog"), vBool("resp.noRetry")
	vAssume(respLast < 1<<62)
	rpcFail := vBool("rpc.fail")
	env.trans.onAppend = func(id ServerID, a *AppendEntriesRequest, resp *AppendEntriesResponse) error {
		nRPC++
		cp := *a
		sent = &cp
		vAssert(id == peer.ID, "C04.repl.rpc-to-own-peer")
		if rpcFail {
			return errInjected
		}
		resp.Term, resp.Success, resp.LastLog, resp.NoRetryBackoff = respTerm, respOK, respLast, respNoRetry
		return nil
	}
	env.trans.onSnapshot = nil
	s.stopCh <- lastIndex // stop after one round
	preNext := s.nextIndex
	preMatch, hadSlot := r.leaderState.commitment.matchIndexes[peer.ID]
	preCommit := r.leaderState.commitment.commitIndex
	needSnap := false
	panicked := vCatch(func() { r.replicateTo(s, lastIndex) })
	vAssert(!panicked, "C12.repl.no-panic")
	if len(env.snaps.calls) > 0 {
		needSnap = true // took the SEND_SNAP branch (the model snapshot store is empty here)
	}
	if needSnap {
		vCover("repl.needs-snapshot")
		// ErrLogNotFound exactly when the needed previous entry / first entry is absent
		prevIdx := preNext - 1
		prevAbsent := vAnd(preNext != 1, vAnd(prevIdx != r.lastSnapshotIndex, !st.has(prevIdx)))
		someAbsent := false
		for i := 0; i < maxAE; i++ {
			idx := preNext + uint64(i)
			someAbsent = vOr(someAbsent, vAnd(idx <= lastIndex, !st.has(idx)))
		}
		vAssert(vOr(prevAbsent, someAbsent), "C04.repl.snapshot-only-when-entry-missing")
		vReach("repl.end")
		return
	}
	vAssert(nRPC == 1, "C12.repl.one-rpc-per-round")
	a := sent
	// C01.LEADER-TERM: the request carries the term of this leadership
	vAssert(a.Term == s.currentTerm && a.Term == r.currentTerm, "C01.repl.request-carries-leader-term")
	vAssert(a.LeaderCommitIndex == r.commitIndex, "C05.repl.request-carries-commit-index")
	// C04.LEADER-BUILD: strong well-formedness of the request
	if preNext == 1 {
		vAssert(a.PrevLogEntry == 0 && a.PrevLogTerm == 0, "C04.repl.prev-zero")
	} else if preNext-1 == r.lastSnapshotIndex {
		vCover("repl.prev-is-snapshot")
		vAssert(a.PrevLogEntry == r.lastSnapshotIndex && a.PrevLogTerm == r.lastSnapshotTerm, "C04.repl.prev-snapshot-boundary")
	} else {
		vAssert(a.PrevLogEntry == preNext-1 && st.has(preNext-1) && a.PrevLogTerm == st.term.Get(preNext-1), "C04.repl.prev-from-log")
	}
	vAssert(len(a.Entries) <= maxAE, "C04.repl.at-most-max-append-entries")
	for i, e := range a.Entries {
		idx := preNext + uint64(i)
		vAssert(e.Index == idx && idx <= lastIndex, "C04.repl.entries-contiguous-not-past-last")
		vAssert(st.has(idx) && e.Term == st.term.Get(idx) && uint64(e.Type) == st.typ.Get(idx) && vBlobToCell(e.Data) == st.data.Get(idx), "C04.repl.entries-from-log")
	}
	wantN := uint64(0)
	if preNext <= lastIndex {
		wantN = lastIndex - preNext + 1
		if wantN > uint64(maxAE) {
			wantN = uint64(maxAE)
		}
	}
	vAssert(uint64(len(a.Entries)) == wantN, "C04.repl.batch-size")
	postMatch := r.leaderState.commitment.matchIndexes[peer.ID]
	if rpcFail {
		vCover("repl.rpc-error")
		vAssert(s.nextIndex == preNext && postMatch == preMatch, "C05.repl.rpc-error-no-effect")
		vAssert(s.failures == 1, "C12.repl.failure-counted")
	} else if respTerm > a.Term {
		vCover("repl.stale-term")
		vAssert(len(s.stepDown) == 1, "C01.repl.newer-term-steps-down")
		vAssert(postMatch == preMatch && s.nextIndex == preNext, "C05.repl.stale-term-no-match")
		vAssert(len(s.notify) == 0 && vf.notifyCh == nil, "C09.repl.stale-term-votes-verify-down")
	} else if respOK {
		vCover("repl.success")
		if len(a.Entries) > 0 {
			last := a.Entries[len(a.Entries)-1].Index
			vAssert(s.nextIndex == last+1, "C12.repl.next-index-advances")
			if hadSlot {
				vAssert(postMatch == vIte64(last > preMatch, last, preMatch), "C05.repl.match-is-last-entry-sent")
			}
		} else {
			vAssert(s.nextIndex == preNext && postMatch == preMatch, "C05.repl.heartbeat-like-no-match")
		}
		vAssert(hadSlot || len(r.leaderState.commitment.matchIndexes) == 1, "C05.repl.nonvoter-gets-no-slot")
		vAssert(s.failures == 0, "C12.repl.failures-cleared")
	} else {
		vCover("repl.rejected")
		want := preNext - 1
		if respLast+1 < want {
			want = respLast + 1
		}
		if want < 1 {
			want = 1
		}
		vAssert(s.nextIndex == want, "C12.repl.backtrack-rule")
		vAssert(s.nextIndex < preNext || preNext == 1, "C12.repl.backtrack-makes-progress")
		vAssert(s.nextIndex >= 1, "C12.repl.next-index-positive")
		vAssert(postMatch == preMatch && r.leaderState.commitment.commitIndex == preCommit, "C05.repl.rejected-no-match")
	}
	vAssert(r.leaderState.commitment.commitIndex >= preCommit, "C05.repl.commit-mono")
	vReach("repl.end")
}

// vh_send_snapshot: sendLatestSnapshot on an arbitrary leader whose snapshot
// store holds 0..2 snapshots, with an arbitrary follower response.
// C12 (progress after a snapshot), C05.FOLLOWER-MATCH, C01.LEADER-TERM, C11 (what is shipped).
func vh_send_snapshot() {
	r, env := vNewRaft("L", vRaftOpts{n: 2, w: 1, shaped: true})
	vAssume(vInvBasic(r, env))
	vMakeLeader(r, "L", 0)
	peer := r.configurations.latest.Servers[1]
	s := r.leaderState.replState[peer.ID]
	s.failures = vU64("failures")
	vAssume(s.failures < 1<<40)
	preNext := s.nextIndex
	nSnap := vChoose("snapshots", 0, 2)
	cfg := vConfig("snapcfg", 1, false)
	for i := 0; i < nSnap; i++ {
		id := "snapA"
		if i == 1 {
			id = "snapB"
		}
		env.snaps.metas = append(env.snaps.metas, &SnapshotMeta{Version: SnapshotVersionMax, ID: id, Index: vU64("snap.index"), Term: vU64("snap.term"),
			Configuration: cfg.Clone(), ConfigurationIndex: vU64("snap.cfgIndex"), Size: vI64("snap.size")})
	}
	env.snaps.failOn = true
	vf := &verifyFuture{}
	vf.init()
	vf.quorumSize = 100
	vf.notifyCh = r.verifyCh
	s.notify[vf] = struct{}{}
	respTerm, respOK, rpcFail := vU64("resp.term"), vBool("resp.success"), vBool("rpc.fail")
	var sent *InstallSnapshotRequest
	nRPC := 0
	env.trans.onSnapshot = func(id ServerID, a *InstallSnapshotRequest, resp *InstallSnapshotResponse, data io.Reader) error {
		nRPC++
		cp := *a
		sent = &cp
		vAssert(id == peer.ID, "C12.snap.rpc-to-own-peer")
		if rpcFail {
			return errInjected
		}
		resp.Term, resp.Success = respTerm, respOK
		return nil
	}
	preMatch, hadSlot := r.leaderState.commitment.matchIndexes[peer.ID]
	preFailures := s.failures
	stop, err := r.sendLatestSnapshot(s)
	postMatch := r.leaderState.commitment.matchIndexes[peer.ID]
	if nRPC == 0 {
		vCover("snap.not-sent")
		// no snapshot, or the store failed: an error, no state change
		vAssert(err != nil && !stop && s.nextIndex == preNext && postMatch == preMatch, "C12.snap.no-snapshot-no-effect")
		vReach("snap.end")
		return
	}
	vAssert(nRPC == 1, "C12.snap.one-rpc")
	m := env.snaps.metas[0] // List returns newest first
	vAssert(sent.LastLogIndex == m.Index && sent.LastLogTerm == m.Term && sent.ConfigurationIndex == m.ConfigurationIndex && sent.Size == m.Size && sent.SnapshotVersion == m.Version, "C11.snap.ships-newest-snapshot-meta")
	vAssert(sent.Term == s.currentTerm && sent.Term == r.currentTerm, "C01.snap.request-carries-leader-term")
	if rpcFail {
		vCover("snap.rpc-error")
		vAssert(err != nil && !stop && s.nextIndex == preNext && postMatch == preMatch && s.failures == preFailures+1, "C12.snap.rpc-error-counted-no-effect")
	} else if respTerm > sent.Term {
		vCover("snap.stale-term")
		vAssert(stop && len(s.stepDown) == 1 && s.nextIndex == preNext && postMatch == preMatch, "C01.snap.newer-term-steps-down")
		vAssert(vf.notifyCh == nil, "C09.snap.stale-term-votes-verify-down")
	} else if respOK {
		vCover("snap.success")
		// progress: the next index moves past the snapshot, so the same snapshot is not sent again
		vAssert(!stop && err == nil && s.nextIndex == m.Index+1, "C12.snap.next-index-past-snapshot")
		if hadSlot {
			vAssert(postMatch == vIte64(m.Index > preMatch, m.Index, preMatch), "C05.snap.match-is-snapshot-index")
		}
		vAssert(s.failures == 0, "C12.snap.failures-cleared")
	} else {
		vCover("snap.rejected")
		vAssert(!stop && err == nil && s.nextIndex == preNext && postMatch == preMatch && s.failures == preFailures+1, "C12.snap.rejected-counted-no-effect")
	}
	vReach("snap.end")
}

// vh_heartbeat: one round of the heartbeat loop with an arbitrary follower
// answer. C09 (the verify vote is the response's own Success), C13 (last
// contact moves only on a response), C01.LEADER-TERM.
func vh_heartbeat() {
	r, env := vNewRaft("L", vRaftOpts{n: 2, w: 1, shaped: true})
	vAssume(vInvBasic(r, env))
	vMakeLeader(r, "L", 0)
	peer := r.configurations.latest.Servers[1]
	s := r.leaderState.replState[peer.ID]
	vf := &verifyFuture{}
	vf.init()
	vf.votes, vf.quorumSize = 1, 3 // one more acknowledgement does not decide it
	vf.notifyCh = r.verifyCh
	s.notify[vf] = struct{}{}
	s.notifyCh <- struct{}{}
	vAssume(!s.lastContact.After(time.Now())) // contacts lie in the past
	preContact := vTimeNs(s.lastContact)
	respTerm, respOK, rpcFail := vU64("resp.term"), vBool("resp.success"), vBool("rpc.fail")
	nRPC := 0
	env.trans.onAppend = func(id ServerID, a *AppendEntriesRequest, resp *AppendEntriesResponse) error {
		nRPC++
		vAssert(id == peer.ID && a.Term == s.currentTerm && a.Term == r.currentTerm, "C01.heartbeat.carries-leader-term")
		vAssert(len(a.Entries) == 0 && a.LeaderCommitIndex == 0 && a.PrevLogEntry == 0, "C05.heartbeat.carries-no-log-claims")
		if rpcFail {
			return errInjected
		}
		resp.Term, resp.Success = respTerm, respOK
		return nil
	}
	vTimerMode(0)
	stopCh := make(chan struct{})
	vRunUntilBlocked(func() { r.heartbeat(s, stopCh) })
	vAssert(nRPC == 1, "C09.heartbeat.one-rpc-per-notify")
	_, stillWaiting := s.notify[vf]
	if rpcFail {
		vCover("heartbeat.rpc-error")
		vAssert(stillWaiting && vf.votes == 1 && vf.notifyCh != nil, "C09.heartbeat.error-is-no-acknowledgement")
		vAssert(vTimeNs(s.lastContact) == preContact, "C13.heartbeat.error-does-not-refresh-contact")
	} else {
		vAssert(!stillWaiting, "C09.heartbeat.future-voted-once")
		vAssert(vTimeNs(s.lastContact) >= preContact, "C13.heartbeat.contact-refreshed")
		if respOK {
			vCover("heartbeat.ack")
			vAssert(vf.votes == 2 && vf.notifyCh != nil, "C09.heartbeat.success-counts-one-vote")
		} else {
			vCover("heartbeat.nack")
			vAssert(vf.votes == 1 && vf.notifyCh == nil, "C09.heartbeat.refusal-fails-the-future")
		}
	}
	vReach("heartbeat.end")
}
