//go:build verif

package raft

// ---- shared helpers (plain Go, executed by the engine and natively) ----

// vConfig builds a configuration of n servers with symbolic suffrage, id and
// address; ids and addresses pairwise distinct and non-empty.
func vConfig(tag string, n int, anySuffrage bool) Configuration {
	var cfg Configuration
	for i := 0; i < n; i++ {
		s := Server{
			Suffrage: ServerSuffrage(vInt(tag + ".suf")),
			ID:       ServerID(vStr(tag + ".id")),
			Address:  ServerAddress(vStr(tag + ".addr")),
		}
		if !anySuffrage {
			vAssume(s.Suffrage >= 0)
			vAssume(s.Suffrage <= 2)
		}
		vAssume(s.ID != "")
		vAssume(s.Address != "")
		for j := 0; j < i; j++ {
			vAssume(s.ID != cfg.Servers[j].ID)
			vAssume(s.Address != cfg.Servers[j].Address)
		}
		cfg.Servers = append(cfg.Servers, s)
	}
	return cfg
}

func vCountVoters(cfg Configuration) uint64 {
	var n uint64
	for _, s := range cfg.Servers {
		n += vB2U(s.Suffrage == Voter)
	}
	return n
}

// number of voters of cfg whose recorded match index is >= idx
func vVotersAtLeast(c *commitment, cfg Configuration, idx uint64) uint64 {
	var n uint64
	for _, s := range cfg.Servers {
		if s.Suffrage == Voter {
			m, ok := c.matchIndexes[s.ID]
			if ok && m >= idx {
				n++
			}
		}
	}
	return n
}

// keys of matchIndexes are exactly the voters of cfg
func vKeysAreVoters(c *commitment, cfg Configuration) bool {
	nv := 0
	for _, s := range cfg.Servers {
		_, ok := c.matchIndexes[s.ID]
		if s.Suffrage == Voter {
			nv++
			if !ok {
				return false
			}
		} else if ok {
			return false
		}
	}
	return len(c.matchIndexes) == nv
}

// vCommitmentState builds an arbitrary commitment object for cfg: one slot per
// voter with an arbitrary match index, arbitrary commit and start index. This
// is the only representation invariant newCommitment/setConfiguration
// establish (keys = voters), so one step from here covers call sequences of
// any length.
func vCommitmentState(cfg Configuration, ch chan struct{}) *commitment {
	c := &commitment{commitCh: ch, matchIndexes: make(map[ServerID]uint64), commitIndex: vU64("commit"), startIndex: vU64("start")}
	for _, s := range cfg.Servers {
		if s.Suffrage == Voter {
			c.matchIndexes[s.ID] = vU64("match")
		}
	}
	return c
}

// C05.COMMITMENT-STEP: one match() from an arbitrary state.
func vh_C05_commitment_step() {
	n := vChoose("n", 1, 4+vTier())
	cfg := vConfig("cfg", n, true)
	ch := make(chan struct{}, 1)
	if vBool("chfull") {
		ch <- struct{}{}
	}
	c := vCommitmentState(cfg, ch)
	start := c.startIndex
	before := c.commitIndex
	prevCh := len(ch)
	var prevMatch [5]uint64
	for i, sv := range cfg.Servers {
		prevMatch[i] = c.matchIndexes[sv.ID]
	}
	who := ServerID(vStr("who"))
	idx := vU64("idx")
	c.match(who, idx)
	after := c.getCommitIndex()
	vAssert(after >= before, "C05.commitment.mono")
	if after > before {
		vCover("C05.commitment.advanced")
		vAssert(after >= start, "C05.commitment.current-term")
		vAssert(2*vVotersAtLeast(c, cfg, after) > vCountVoters(cfg), "C05.commitment.majority")
		vAssert(len(ch) == 1, "C05.commitment.notified")
	} else {
		vAssert(len(ch) == prevCh, "C05.commitment.no-spurious-notify")
	}
	vAssert(vKeysAreVoters(c, cfg), "C05.commitment.slots")
	isVoter := false
	for i, sv := range cfg.Servers {
		vAssert(c.matchIndexes[sv.ID] >= prevMatch[i], "C05.commitment.match-mono")
		if sv.ID == who {
			if sv.Suffrage == Voter {
				isVoter = true
			} else {
				vCover("C05.commitment.nonvoter-match")
			}
		} else {
			vAssert(c.matchIndexes[sv.ID] == prevMatch[i], "C05.commitment.frame-others")
		}
	}
	if !isVoter {
		// a match for a non-voter / staging server / stranger changes nothing
		vCover("C05.commitment.stranger")
		vAssert(after == before, "C05.commitment.nonvoter-inert")
		for i, sv := range cfg.Servers {
			vAssert(c.matchIndexes[sv.ID] == prevMatch[i], "C05.commitment.nonvoter-inert")
		}
	}
	vReach("C05.commitment.end")
}

// C05.SETCONFIG-STEP: one setConfiguration() from an arbitrary state.
func vh_C05_setconfig_step() {
	n := vChoose("n", 1, 3)
	cfg := vConfig("cfg", n, true)
	ch := make(chan struct{}, 1)
	c := vCommitmentState(cfg, ch)
	start := c.startIndex
	before := c.commitIndex
	m := vChoose("m", 1, 3)
	cfg2 := vConfig("cfg2", m, true)
	var carried [3]uint64
	for i, sv := range cfg2.Servers {
		carried[i] = c.matchIndexes[sv.ID] // 0 for newcomers and former non-voters
	}
	c.setConfiguration(cfg2)
	after := c.getCommitIndex()
	vAssert(after >= before, "C05.setconfig.mono")
	vAssert(vKeysAreVoters(c, cfg2), "C05.setconfig.slots")
	for i, sv := range cfg2.Servers {
		if sv.Suffrage == Voter {
			vAssert(c.matchIndexes[sv.ID] == carried[i], "C05.setconfig.carry")
		}
	}
	if after > before {
		vCover("C05.setconfig.advanced")
		vAssert(after >= start, "C05.setconfig.current-term")
		vAssert(2*vVotersAtLeast(c, cfg2, after) > vCountVoters(cfg2), "C05.setconfig.majority")
	}
	vReach("C05.setconfig.end")
}

// C05.COMMITMENT-SEQ: newCommitment followed by a short call sequence (bounded
// cross-check of the step lemma; exercises newCommitment itself).
func vh_C05_commitment_seq() {
	n := vChoose("n", 1, 3)
	cfg := vConfig("cfg", n, true)
	start := vU64("start")
	ch := make(chan struct{}, 1)
	c := newCommitment(ch, cfg, start)
	vAssert(c.getCommitIndex() == 0, "C05.seq.init-zero")
	vAssert(vKeysAreVoters(c, cfg), "C05.seq.slots-init")
	for _, sv := range cfg.Servers {
		vAssert(c.matchIndexes[sv.ID] == 0, "C05.seq.match-init-zero")
	}
	steps := vChoose("steps", 1, 2)
	for s := 0; s < steps; s++ {
		before := c.getCommitIndex()
		c.match(ServerID(vStr("who")), vU64("idx"))
		after := c.getCommitIndex()
		vAssert(after >= before, "C05.seq.mono")
		if after > before {
			vCover("C05.seq.advanced")
			vAssert(after >= start, "C05.seq.current-term")
			vAssert(2*vVotersAtLeast(c, cfg, after) > vCountVoters(cfg), "C05.seq.majority")
		}
		vAssert(vKeysAreVoters(c, cfg), "C05.seq.slots")
	}
	vReach("C05.seq.end")
}
