//go:build verif

package raft

import "time"

// One iteration of leaderLoop with exactly one channel ready.

// vShapeCommit fixes commit/applied positions of a shaped server (concrete
// offsets from the base, symbolic base) and returns the offsets.
func vShapeCommit(r *Raft, tag string, w int) (snapOff, lastOff int) {
	base := vBase()
	for k := 0; k <= w; k++ {
		if r.lastSnapshotIndex == base+uint64(k) {
			snapOff = k
		}
	}
	lastOff = snapOff
	for k := 0; k <= w; k++ {
		if r.lastLogIndex == base+uint64(k) && k > lastOff {
			lastOff = k
		}
	}
	r.commitIndex = base + uint64(vChoose(tag+".commitOff", 0, lastOff))
	r.lastApplied = base + uint64(vChoose(tag+".appliedOff", snapOff, lastOff))
	return
}

// vh_leader_commit: the commit case of leaderLoop.
func vh_leader_commit() {
	w := 2 + vTier()
	r, env := vNewRaft("L", vRaftOpts{n: 2, w: w, shaped: true})
	st := env.logs
	base := vBase()
	_, lastOff := vShapeCommit(r, "L", w)
	vAssume(vInvBasic(r, env))
	vAssume(vInvLog(r, env, w))
	vAssume(r.lastLogIndex >= r.lastSnapshotIndex) // a leader has appended its no-op
	selfIdx := vChoose("self", -1, 0)
	vMakeLeader(r, "L", selfIdx)
	cm := r.leaderState.commitment
	// R6: leader bookkeeping
	cm.startIndex = base + uint64(vChoose("startOff", 1, lastOff+1))
	cm.commitIndex = base + uint64(vChoose("cmCommitOff", 0, lastOff))
	vAssume(cm.commitIndex >= cm.startIndex) // commitCh is only notified when the index rose to >= startIndex
	vAssume(vOr(r.commitIndex < cm.startIndex, r.commitIndex <= cm.commitIndex))
	vAssume(r.commitIndex <= cm.commitIndex)
	// in-flight futures: the last m entries of the log, each carrying its own entry
	m := vChoose("inflight", 0, 2)
	vAssume(uint64(m) <= r.lastLogIndex-r.lastApplied)
	var fs []*logFuture
	for i := m - 1; i >= 0; i-- {
		idx := r.lastLogIndex - uint64(i)
		vAssume(st.has(idx))
		f := &logFuture{log: Log{Index: idx, Term: st.term.Get(idx), Type: LogType(st.typ.Get(idx)), Data: vBlobFromCell(st.data.Get(idx))}}
		f.init()
		fs = append(fs, f)
		r.leaderState.inflight.PushBack(f)
	}
	// everything between lastApplied and the first in-flight entry is in the store (R4)
	vAssume(st.contiguous(r.lastApplied+1, r.lastLogIndex))
	// latest configuration: possibly uncommitted
	r.configurations.latestIndex = base + uint64(vChoose("latestOff", 0, lastOff))
	if vChoose("uncommittedCfg", 0, 1) == 1 {
		r.configurations.committedIndex = base
		vAssume(r.configurations.latestIndex > r.commitIndex)
	} else {
		r.configurations.committedIndex = r.configurations.latestIndex
	}
	// with MaxAppendEntries = 1 every committed entry travels in its own batch
	cfgv := r.conf.Load().(Config)
	cfgv.MaxAppendEntries = vChoose("maxAE", 1, 2)
	r.conf.Store(cfgv)
	pre := vSnap(r, env)
	preLatest := r.configurations.latest.Clone()
	r.leaderState.commitCh <- struct{}{}
	vAssertNoPanic("C08.commit.no-panic")
	vRunUntilBlocked(r.leaderLoop)
	post := vSnap(r, env)
	vAssert(post.commit == cm.commitIndex, "C05.commit.takes-commitment-index")
	vAssert(post.commit >= pre.commit, "C05.commit.mono")
	vAssert(post.commit >= cm.startIndex, "C05.commit.current-term-rule")
	vAssert(post.commit <= r.getLastIndex(), "C05.commit.le-last-index")
	// configuration commit
	if pre.latestIndex > pre.commit && pre.latestIndex <= post.commit {
		vCover("commit.config-committed")
		vAssert(post.committedIndex == pre.latestIndex && vSameServers(post.committed, preLatest.Servers), "C07.commit.committed-becomes-latest")
		if !hasVote(preLatest, r.localID) {
			vCover("commit.leader-removed")
			vAssert(post.state != Leader || r.shutdown, "C07.commit.removed-leader-steps-down")
		}
	} else {
		vAssert(post.committedIndex == pre.committedIndex, "C07.commit.committed-config-unchanged")
	}
	vAssert(post.latestIndex == pre.latestIndex, "C07.commit.latest-unchanged")
	// futures: exactly those with index <= commit are removed and handed to the FSM with their own log
	fed := map[uint64]*commitTuple{}
	order := uint64(0)
	for len(r.fsmMutateCh) > 0 {
		b := (<-r.fsmMutateCh).([]*commitTuple)
		vAssert(len(b) >= 1 && len(b) <= r.config().MaxAppendEntries, "C02.commit.batch-size-bounded")
		for _, ct := range b {
			vAssert(ct.log.Index > order, "C02.commit.feed-increasing")
			vAssert(ct.log.Index > order, "C08.commit.each-entry-reaches-the-fsm-once")
			vAssert(ct.log.Index > pre.applied && ct.log.Index <= post.commit, "C02.commit.feed-only-committed-new")
			order = ct.log.Index
			fed[ct.log.Index] = ct
		}
	}
	anyCommitted := false
	for _, f := range fs {
		if f.log.Index <= post.commit {
			anyCommitted = true
			vCover("commit.future-committed")
			ct := fed[f.log.Index]
			if f.log.Type == LogNoop {
				done, err := vFutureErr(&f.deferError)
				vAssert(done && err == nil, "C08.commit.noop-future-answered")
			} else {
				vAssert(ct != nil && ct.future == f && ct.log == &f.log, "C08.commit.future-fed-with-own-log")
			}
		} else {
			vCover("commit.future-stays")
			done, _ := vFutureErr(&f.deferError)
			vAssert(!done && fed[f.log.Index] == nil, "C08.commit.uncommitted-future-stays")
		}
	}
	// inflight now holds exactly the uncommitted ones, in order
	e := r.leaderState.inflight.Front()
	for _, f := range fs {
		if f.log.Index > post.commit {
			vAssert(e != nil && e.Value.(*logFuture) == f, "C08.commit.inflight-keeps-uncommitted")
			if e != nil {
				e = e.Next()
			}
		}
	}
	vAssert(e == nil, "C08.commit.inflight-drops-committed")
	if anyCommitted {
		// store-read entries (between lastApplied and the first future) equal the store
		for k := 1; k <= w; k++ {
			idx := base + uint64(k)
			if ct := fed[idx]; ct != nil && ct.future == nil {
				vAssert(st.has(idx) && ct.log.Term == st.term.Get(idx) && vBlobToCell(ct.log.Data) == st.data.Get(idx), "C02.commit.feed-from-store")
			}
			if idx > pre.applied && idx <= post.applied && fed[idx] == nil {
				vAssert(st.typ.Get(idx) == uint64(LogNoop), "C02.commit.none-skipped")
			}
		}
		vAssert(post.applied >= pre.applied && post.applied <= post.commit, "C02.commit.applied-bounds")
	} else {
		vAssert(post.applied == pre.applied, "C02.commit.no-future-no-apply")
	}
	vReach("commit.end")
}

// vh_leader_apply: the applyCh case of leaderLoop (1..2 queued futures) under
// the stepDown-in-progress and leadership-transfer flags.
func vh_leader_apply() {
	w := 3
	r, env := vNewRaft("L", vRaftOpts{n: 1, w: w, shaped: true})
	vAssume(vInvBasic(r, env))
	vAssume(vInvLog(r, env, w))
	vMakeLeader(r, "L", 0)
	base := vBase()
	lastIndex := r.getLastIndex()
	vAssume(lastIndex >= base && lastIndex+2 <= base+uint64(w))
	if vBool("transfer") {
		r.setLeadershipTransferInProgress(true)
	}
	k := vChoose("k", 1, 2)
	var fs []*logFuture
	for i := 0; i < k; i++ {
		f := vArbFuture("f")
		fs = append(fs, f)
		r.applyCh <- f
	}
	pre := vSnap(r, env)
	vRunUntilBlocked(r.leaderLoop)
	post := vSnap(r, env)
	transfer := r.getLeadershipTransferInProgress()
	for i, f := range fs {
		done, err := vFutureErr(&f.deferError)
		if done && err != nil {
			vCover("apply.refused")
			vAssert(err == ErrLeadershipTransferInProgress, "C08.apply.refusal-error")
			// a refused call was never stored and is not in flight
			vAssert(!env.logs.has(lastIndex+uint64(i)+1) || post.storeCalls == pre.storeCalls, "C08.apply.refused-never-stored")
			for e := r.leaderState.inflight.Front(); e != nil; e = e.Next() {
				vAssert(e.Value.(*logFuture) != f, "C08.apply.refused-not-inflight")
			}
		} else {
			vCover("apply.dispatched")
			vAssert(!transfer, "C08.apply.no-dispatch-during-transfer")
			vAssert(f.log.Index > lastIndex && f.log.Term == pre.term, "C08.apply.dispatched-index-term")
		}
	}
	if transfer {
		vAssert(post.storeCalls == pre.storeCalls && post.logIdx == pre.logIdx, "C08.apply.transfer-no-store")
		// every queued future is refused (one per loop iteration); none is left behind
		vAssert(len(r.applyCh) == 0, "C17.apply.transfer-all-answered")
		for _, f := range fs {
			done, err := vFutureErr(&f.deferError)
			vAssert(done && err == ErrLeadershipTransferInProgress, "C08.apply.transfer-refuses-all")
		}
	}
	vReach("apply.end")
}

// vh_gate: a pending membership request is consumed only when the gate is open.
func vh_gate() {
	w := 3
	r, env := vNewRaft("L", vRaftOpts{n: 2, w: w, shaped: true})
	if vTier() == 0 {
		// quick tier: one log shape (the gate does not depend on it); thorough: all shapes
		vAssume(r.lastSnapshotIndex == vBase() && env.logs.low == vBase()+1 && env.logs.high == vBase()+2)
	}
	vAssume(vInvBasic(r, env))
	vAssume(vInvLog(r, env, w))
	vMakeLeader(r, "L", 0)
	vSpawnPolicy(false)
	base := vBase()
	lastIndex := r.getLastIndex()
	vAssume(lastIndex >= base && lastIndex+1 <= base+uint64(w))
	cm := r.leaderState.commitment
	r.configurations.committedIndex = vU64("committedIndex")
	vAssume(r.configurations.committedIndex <= r.configurations.latestIndex)
	if vBool("transfer") {
		r.setLeadershipTransferInProgress(true)
	}
	fut := &configurationChangeFuture{req: configurationChangeRequest{command: ConfigurationChangeCommand(vU8("cmd")), serverID: ServerID(vStr("rid")), serverAddress: ServerAddress(vStr("raddr")), prevIndex: vU64("prevIndex")}}
	fut.init()
	open := r.configurations.latestIndex == r.configurations.committedIndex && r.commitIndex >= cm.startIndex
	pre := vSnap(r, env)
	preLatest := r.configurations.latest.Clone()
	// the request sits on an unbuffered channel: a sender goroutine offers it
	vGo(func() { r.configurationChangeCh <- fut })
	vRunUntilBlocked(r.leaderLoop)
	post := vSnap(r, env)
	done, err := vFutureErr(&fut.deferError)
	consumed := done || post.storeCalls != pre.storeCalls || fut.log.Index != 0
	if !open {
		vCover("gate.closed")
		vAssert(!consumed, "C07.gate.closed-request-stays-queued")
		// in particular no membership change before an entry of the leader's own term is committed (single-server change safety)
		vAssert(!consumed, "C03.gate.no-membership-change-before-own-term-commit")
		vAssert(post.storeCalls == pre.storeCalls && post.latestIndex == pre.latestIndex, "C07.gate.closed-no-effect")
		vReach("gate.end")
		return
	}
	vCover("gate.open")
	if r.getLeadershipTransferInProgress() {
		vCover("gate.transfer")
		vAssert(done && err == ErrLeadershipTransferInProgress, "C07.gate.refused-during-transfer")
		vAssert(post.storeCalls == pre.storeCalls && post.latestIndex == pre.latestIndex, "C07.gate.transfer-no-effect")
		vReach("gate.end")
		return
	}
	if done && err != nil && post.storeCalls == pre.storeCalls {
		vCover("gate.rejected")
		// nextConfiguration refused: no effect at all
		vAssert(post.latestIndex == pre.latestIndex && vSameServers(post.latest, preLatest.Servers) && post.logIdx == pre.logIdx, "C07.append.rejected-no-effect")
		vReach("gate.end")
		return
	}
	// appended: exactly one configuration entry at lastIndex+1
	nStore := 0
	for _, c := range env.logs.calls {
		if c.op == opStoreLogs {
			nStore++
			vAssert(c.a == lastIndex+1 && c.b == lastIndex+1, "C07.append.one-entry-at-next-index")
		}
	}
	vAssert(nStore == 1, "C07.append.single-store")
	vCover("gate.appended")
	vAssert(fut.log.Type == LogConfiguration && fut.log.Index == lastIndex+1 && fut.log.Term == pre.term, "C07.append.entry-shape")
	vAssert(post.latestIndex == lastIndex+1 && post.latestIndex > pre.commit, "C07.append.latest-index-uncommitted")
	// the new configuration stays uncommitted (gate closed) until the commit index reaches it
	// (a single-voter cluster commits it in the same run-until-blocked step)
	vAssert(vOr(post.committedIndex == pre.committedIndex, post.commit >= post.latestIndex), "C07.append.committed-unchanged")
	vAssert(vOr(post.latestIndex != post.committedIndex, post.commit >= post.latestIndex), "C07.append.gate-closes-again")
	vAssert(vVoterDiff(preLatest, Configuration{Servers: post.latest}) <= 1, "C07.append.one-voter")
	vAssert(vKeysAreVoters(cm, Configuration{Servers: post.latest}), "C07.append.commitment-tracks-new-voters")
	// replication state: exactly the members other than self
	for _, s := range post.latest {
		_, ok := r.leaderState.replState[s.ID]
		vAssert(ok == (s.ID != r.localID), "C07.append.replication-for-members")
	}
	vAssert(len(r.leaderState.replState) <= len(post.latest), "C07.append.replication-stopped-for-removed")
	vReach("gate.end")
}

// vh_lease_loop: the lease case of leaderLoop must run when the lease timer is
// due, whatever else is ready at the same time (client traffic must not starve
// it). The leader has lost contact with its only peer.
func vh_lease_loop() {
	r, env := vNewRaft("L", vRaftOpts{n: 2, w: 3, shaped: true})
	vAssume(r.lastSnapshotIndex == vBase() && env.logs.low == vBase()+1 && env.logs.high == vBase()+1) // one log shape: the case does not depend on it
	vAssume(vInvBasic(r, env))
	vAssume(vInvLog(r, env, 3))
	servers := r.configurations.latest.Servers
	vAssume(servers[0].Suffrage == Voter && servers[1].Suffrage == Voter)
	vMakeLeader(r, "L", 0)
	lastIndex := r.getLastIndex()
	vAssume(lastIndex >= vBase() && lastIndex+2 <= vBase()+3)
	lease := r.conf.Load().(Config).LeaderLeaseTimeout
	t0 := time.Now()
	s := r.leaderState.replState[servers[1].ID]
	vAssume(t0.Sub(s.lastContact) > lease) // contact with the only other voter is older than the lease
	// client traffic is queued at the same time
	k := vChoose("applies", 0, 2)
	for i := 0; i < k; i++ {
		r.applyCh <- vArbFuture("f")
	}
	vSpawnPolicy(false)
	vTimerMode(3) // the lease timer armed by leaderLoop is due; timers armed later are not
	vRunUntilBlocked(r.leaderLoop)
	vAssert(r.getState() == Follower, "C13.loop.due-lease-check-runs-despite-client-traffic")
	vReach("leaseloop.end")
}

// vh_leadership_transfer: the leadershipTransferCh case of leaderLoop with its
// helper goroutines run to quiescence; every timer that is armed elapses.
// Whatever the target does (acknowledges TimeoutNow and never takes over, RPC
// fails), the future resolves and the transfer flag is cleared. C17.LOOP-ANSWERS.
func vh_leadership_transfer() {
	n := 2 + vChoose("extraServer", 0, 1)
	r, env := vNewRaft("L", vRaftOpts{n: n, w: 3, shaped: true})
	vAssume(r.lastSnapshotIndex == vBase() && env.logs.low == vBase()+1 && env.logs.high == vBase()+1)
	vAssume(vInvBasic(r, env))
	vAssume(vInvLog(r, env, 3))
	servers := r.configurations.latest.Servers
	vAssume(servers[0].Suffrage == Voter && servers[1].Suffrage == Voter)
	vMakeLeader(r, "L", 0)
	s := r.leaderState.replState[servers[1].ID]
	s.nextIndex = r.getLastIndex() + 1 // the target is caught up
	if n == 3 {
		// a third server of arbitrary suffrage that is at least as far along: only a voter may be picked
		s3 := r.leaderState.replState[servers[2].ID]
		s3.nextIndex = r.getLastIndex() + 1 + uint64(vChoose("thirdAhead", 0, 1))
	}
	env.trans.timeoutNowFails = vChoose("timeoutNowFails", 0, 1) == 1
	fut := &leadershipTransferFuture{}
	fut.init()
	if vChoose("named", 0, 1) == 1 {
		id, addr := servers[1].ID, servers[1].Address
		fut.ID, fut.Address = &id, &addr
	}
	r.leadershipTransferCh <- fut
	vSpawnPolicy(true)
	vTimerMode(0)                 // the lease timer of the loop itself stays quiet
	vTimerFor("leaderLoop$", vChoose("helperTimers", 0, 1)*3+1) // helper timers elapse at once (1) or only once nothing else can happen (4)
	vAssertNoPanic("C17.transfer.no-panic")
	vRunUntilBlocked(r.leaderLoop)
	done, err := vFutureErr(&fut.deferError)
	vAssert(done, "C17.transfer.future-resolves")
	vAssert(!r.getLeadershipTransferInProgress(), "C17.transfer.flag-cleared")
	if done && err == nil {
		vCover("transfer.reported-success")
		// success is only reported when this server actually left the leader loop
		vAssert(r.getState() != Leader, "C17.transfer.success-only-after-stepdown")
	} else {
		vCover("transfer.reported-error")
	}
	if env.trans.timeoutNowFails {
		vAssert(done && err != nil, "C17.transfer.rpc-failure-reported")
	}
	vAssert(len(env.trans.timeoutNowTo) <= 1, "C17.transfer.one-timeout-now")
	for _, id := range env.trans.timeoutNowTo {
		vAssert(vHasVoteT(r.configurations.latest, id) && id != r.localID, "C17.transfer.timeout-now-to-voter-peer")
		vAssert(vHasVoteT(r.configurations.latest, id) && id != r.localID, "C07.transfer.target-is-a-voter")
	}
	vReach("transfer.end")
}

// vh_lease_rearm: the lease case of leaderLoop with the quorum still in
// contact: the leader stays, and the timer is re-armed with
// max(LeaderLeaseTimeout - maxDiff, 10ms): never longer than the lease.
func vh_lease_rearm() {
	r, env := vNewRaft("L", vRaftOpts{n: 2, w: 3, shaped: true})
	vAssume(r.lastSnapshotIndex == vBase() && env.logs.low == vBase()+1 && env.logs.high == vBase()+1)
	vAssume(vInvBasic(r, env))
	vAssume(vInvLog(r, env, 3))
	servers := r.configurations.latest.Servers
	vAssume(servers[0].Suffrage == Voter && servers[1].Suffrage == Voter)
	vMakeLeader(r, "L", 0)
	cfg := r.conf.Load().(Config)
	cfg.LeaderLeaseTimeout = 500 * time.Millisecond
	cfg.HeartbeatTimeout = 3 * time.Second // a valid configuration: lease <= heartbeat <= election
	cfg.ElectionTimeout = 3 * time.Second
	r.conf.Store(cfg)
	t0 := time.Now()
	s := r.leaderState.replState[servers[1].ID]
	vAssume(!s.lastContact.After(t0) && t0.Sub(s.lastContact) < 100*time.Millisecond) // fresh contact
	vSpawnPolicy(false)
	vTimerMode(3) // the lease timer is due once
	vRunUntilBlocked(r.leaderLoop)
	d := vLastTimerDuration()
	if r.getState() == Leader {
		vCover("rearm.stays-leader")
		vAssert(d <= cfg.LeaderLeaseTimeout && d >= minCheckInterval, "C13.loop.next-check-within-one-lease")
	} else {
		vCover("rearm.stepped-down") // the symbolic clock may have advanced past the lease between the two readings
	}
	vReach("rearm.end")
}

// vh_gate_faults: the membership case of leaderLoop with the gate open and the
// log store failing. When the configuration entry could not be stored the
// request is answered with an error, the leader steps down, and the server's
// latest configuration (which drives its elections, its quorum and - were it
// to lead again without a restart - its commit rule) is still the one its log
// holds.
func vh_gate_faults() {
	w := 3
	r, env := vNewRaft("L", vRaftOpts{n: 2, w: w, shaped: true})
	vAssume(r.lastSnapshotIndex == vBase() && env.logs.low == vBase()+1 && env.logs.high == vBase()+2)
	vAssume(vInvBasic(r, env))
	vAssume(vInvLog(r, env, w))
	vMakeLeader(r, "L", 0)
	vSpawnPolicy(false)
	lastIndex := r.getLastIndex()
	cm := r.leaderState.commitment
	vAssume(r.configurations.latestIndex == r.configurations.committedIndex && r.commitIndex >= cm.startIndex) // gate open
	fut := &configurationChangeFuture{req: configurationChangeRequest{command: ConfigurationChangeCommand(vU8("cmd")), serverID: ServerID(vStr("rid")), serverAddress: ServerAddress(vStr("raddr")), prevIndex: vU64("prevIndex")}}
	fut.init()
	pre := vSnap(r, env)
	preLatest := r.configurations.latest.Clone()
	env.logs.failOn, env.logs.writesOnly = true, true // a failing read of a committed entry panics by design (processLogs)
	vGo(func() { r.configurationChangeCh <- fut })
	vRunUntilBlocked(r.leaderLoop)
	env.logs.failOn = false
	post := vSnap(r, env)
	done, err := vFutureErr(&fut.deferError)
	failedStore := false
	for _, c := range env.logs.calls {
		if c.op == opStoreLogs && !c.ok {
			failedStore = true
		}
	}
	if !failedStore {
		vReach("gatefault.end")
		return
	}
	vCover("gatefault.store-failed")
	vAssert(done && err != nil, "C17.gatefault.failed-append-answers-the-request")
	vAssert(r.getState() != Leader, "C07.gatefault.leader-steps-down")
	vAssert(post.logIdx == pre.logIdx && r.getLastIndex() == lastIndex, "C07.gatefault.log-unchanged")
	// no phantom configuration: what the server believes to be the latest configuration is in its log
	vAssert(post.latestIndex == pre.latestIndex && vSameServers(post.latest, preLatest.Servers), "C07.gatefault.latest-configuration-is-in-the-log")
	vAssert(post.latestIndex <= r.getLastIndex(), "C05.gatefault.quorum-configuration-is-in-the-log")
	vReach("gatefault.end")
}

// vh_leader_apply_racing_transfer: the apply case of leaderLoop while the transfer-in-progress flag is
// owned by another goroutine (the transfer supervisor resets it asynchronously): every atomic load of the
// flag may see a different value. A call answered with ErrLeadershipTransferInProgress was never stored,
// whichever values the loads saw. C08 (a refused call has no effect), C17.
func vh_leader_apply_racing_transfer() {
	w := 3
	r, env := vNewRaft("L", vRaftOpts{n: 1, w: w, shaped: true})
	vAssume(vInvBasic(r, env))
	vAssume(vInvLog(r, env, w))
	vMakeLeader(r, "L", 0)
	base := vBase()
	lastIndex := r.getLastIndex()
	vAssume(lastIndex >= base && lastIndex+2 <= base+uint64(w))
	vVolatile(&r.leaderState.leadershipTransferInProgress)
	k := vChoose("k", 1, 2)
	var fs []*logFuture
	for i := 0; i < k; i++ {
		f := vArbFuture("f")
		fs = append(fs, f)
		r.applyCh <- f
	}
	pre := vSnap(r, env)
	vRunUntilBlocked(r.leaderLoop)
	post := vSnap(r, env)
	nRefused := 0
	for _, f := range fs {
		done, err := vFutureErr(&f.deferError)
		if done && err == ErrLeadershipTransferInProgress {
			vCover("race.refused")
			nRefused++
			vAssert(f.log.Index == 0, "C08.race.refused-call-never-got-an-index")
			for e := r.leaderState.inflight.Front(); e != nil; e = e.Next() {
				vAssert(e.Value.(*logFuture) != f, "C08.race.refused-call-not-inflight")
			}
		} else {
			vCover("race.dispatched")
			vAssert(!done, "C08.race.dispatched-call-stays-pending")
			vAssert(f.log.Index > lastIndex && env.logs.has(f.log.Index), "C08.race.dispatched-call-stored")
		}
	}
	if nRefused == k {
		vAssert(post.storeCalls == pre.storeCalls && post.logIdx == pre.logIdx, "C08.race.all-refused-nothing-stored")
	}
	vAssert(len(r.applyCh) == 0, "C17.race.every-queued-call-served")
	vReach("race.end")
}
