//go:build verif

package raft

// vh_user_restore: restoreUserSnapshot on an arbitrary leader with 0..2
// in-flight futures; FSM goroutine running; snapshot-store and copy faults.
func vh_user_restore() {
	w := 2
	flavour := vChoose("storeFlavour", 0, 2) // 0 plain, 1 monotonic, 2 MonotonicLogStore shim answering false
	mono := flavour == 1
	r, env := vNewRaft("L", vRaftOpts{n: 1, w: w, shaped: true, mono: mono, monoShim: flavour == 2})
	vAssume(vInvBasic(r, env))
	vAssume(vInvLog(r, env, w))
	vMakeLeader(r, "L", 0)
	s := env.logs
	lastIndex := r.getLastIndex()
	m := vChoose("inflight", 0, 2)
	var fs []*logFuture
	for i := 0; i < m; i++ {
		f := vArbFuture("f")
		fs = append(fs, f)
		r.leaderState.inflight.PushBack(f)
	}
	r.configurations.committedIndex = vU64("committedIndex")
	vAssume(r.configurations.committedIndex <= r.configurations.latestIndex)
	meta := &SnapshotMeta{Version: SnapshotVersion(vInt("meta.version")), Index: vU64("meta.index"), Term: vU64("meta.term"), Size: vI64("meta.size")}
	vAssume(meta.Index < 1<<62 && meta.Size >= 0)
	env.snaps.failOn = true
	env.snaps.noOpenFail = true // a failing FSM restore panics by design ("we are in a bad state")
	vIOSize(meta.Size)
	pre := vSnap(r, env)
	preLatest := r.configurations.latest.Clone()
	vGo(r.runFSM)
	var err error
	panicked := vCatch(func() { err = r.restoreUserSnapshot(meta, &mReader{}) })
	vAssert(!panicked, "C20.restore.no-panic") // the model FSM's Restore succeeds
	if panicked {
		return
	}
	post := vSnap(r, env)
	refusedEarly := meta.Version < SnapshotVersionMin || meta.Version > SnapshotVersionMax || pre.committedIndex != pre.latestIndex
	if refusedEarly {
		vCover("restore.refused")
		vAssert(err != nil, "C20.restore.refused-when-config-uncommitted-or-bad-version")
		vAssert(vSameState(pre, post) && len(env.snaps.calls) == 0 && len(env.fsm.calls) == 0, "C20.restore.refusal-no-effect")
		vAssert(r.leaderState.inflight.Len() == m, "C20.restore.refusal-keeps-inflight")
		for _, f := range fs {
			done, _ := vFutureErr(&f.deferError)
			vAssert(!done, "C20.restore.refusal-answers-nothing")
		}
		vReach("restore.end")
		return
	}
	// every in-flight future is aborted and removed, whatever happens next
	vAssert(r.leaderState.inflight.Len() == 0, "C20.restore.inflight-emptied")
	for _, f := range fs {
		done, e := vFutureErr(&f.deferError)
		vAssert(done && e == ErrAbortedByRestore, "C20.restore.inflight-aborted")
		vAssert(done && e == ErrAbortedByRestore, "C17.restore.inflight-answered")
	}
	want := lastIndex
	if meta.Index > want {
		want = meta.Index
	}
	want++
	nRestore := 0
	for _, c := range env.fsm.calls {
		if c.op == opFSMRestore {
			nRestore++
		}
	}
	created := false
	for _, c := range env.snaps.calls {
		if c.op == opSnapCreate && c.ok {
			created = true
			vAssert(c.a == want && c.b == pre.term, "C20.restore.snapshot-index-above-both")
			// the stored snapshot must be exactly what the leader's in-memory position says, or followers that install it can never be matched again
			vAssert(c.a == want && c.b == pre.term, "C12.restore.stored-snapshot-matches-leader-position")
		}
	}
	for _, c := range env.snaps.calls {
		if c.op == opSnapClose && c.ok {
			vAssert(vIOCopyN(0) == meta.Size, "C20.restore.only-complete-stream-becomes-durable")
		}
	}
	if err == nil {
		vCover("restore.success")
		vAssert(created && nRestore == 1, "C20.restore.fsm-restored-once")
		vAssert(post.logIdx == want && post.logTerm == pre.term && post.applied == want && post.snapIdx == want && post.snapTerm == pre.term, "C20.restore.positions-set-to-burned-index")
		vAssert(r.getLastIndex() > meta.Index && r.getLastIndex() > lastIndex, "C20.restore.later-indexes-above-both")
		sink := env.snaps.sinks[len(env.snaps.sinks)-1]
		vAssert(sink.closed && !sink.canceled && vSameServers(sink.meta.Configuration.Servers, preLatest.Servers) && sink.meta.ConfigurationIndex == pre.latestIndex, "C20.restore.snapshot-carries-latest-configuration")
		if mono {
			vAssert(s.low == 0 && s.high == 0, "C20.restore.monotonic-log-emptied")
		} else {
			vAssert(s.low == pre.logLow && s.high == pre.logHigh, "C20.restore.gap-tolerant-log-kept")
		}
		vAssert(post.latestIndex == pre.latestIndex && post.term == pre.term && post.state == Leader, "C20.restore.frame")
	} else {
		vCover("restore.failed")
		vAssert(nRestore == 0, "C20.restore.failure-no-fsm-restore")
		vAssert(post.logIdx == pre.logIdx && post.applied == pre.applied && post.snapIdx == pre.snapIdx && post.storeCalls == pre.storeCalls, "C20.restore.failure-no-state-change")
	}
	vReach("restore.end")
}

// vh_restore_gate: the userRestoreCh case of leaderLoop refuses during a leadership transfer.
func vh_restore_gate() {
	r, env := vNewRaft("L", vRaftOpts{n: 1, w: 1, shaped: true})
	vAssume(vInvBasic(r, env))
	vAssume(vInvLog(r, env, 1))
	vMakeLeader(r, "L", 0)
	r.setLeadershipTransferInProgress(true)
	fut := &userRestoreFuture{meta: &SnapshotMeta{Version: SnapshotVersionMax, Index: vU64("meta.index")}, reader: &mReader{}}
	fut.init()
	pre := vSnap(r, env)
	vGo(func() { r.userRestoreCh <- fut })
	vRunUntilBlocked(r.leaderLoop)
	post := vSnap(r, env)
	done, err := vFutureErr(&fut.deferError)
	vAssert(done && err == ErrLeadershipTransferInProgress, "C20.restore.refused-during-transfer")
	vAssert(vSameState(pre, post) && len(env.snaps.calls) == 0, "C20.restore.transfer-refusal-no-effect")
	vReach("restoregate.end")
}

// vh_run_leader: a whole runLeader activation: prologue, some client work, a
// step-down, epilogue. C18.PAIR, C17.STEPDOWN-ANSWERS, C08.STEPDOWN, C12.NOOP.
func vh_run_leader() {
	w := 3
	r, env := vNewRaft("L", vRaftOpts{n: 2, w: w, shaped: true})
	vAssume(vInvBasic(r, env))
	vAssume(vInvLog(r, env, w))
	servers := r.configurations.latest.Servers
	r.localID, r.localAddr = servers[0].ID, servers[0].Address
	vAssume(servers[0].Suffrage == Voter && servers[1].Suffrage == Voter)
	r.state = Leader
	r.leaderAddr, r.leaderID = r.localAddr, r.localID
	base := vBase()
	lastIndex := r.getLastIndex()
	vAssume(lastIndex >= base && lastIndex+3 <= base+uint64(w))
	notify := make(chan bool, 4)
	useNotify := vChoose("notifyCh", 0, 1) == 1
	cfg := r.conf.Load().(Config)
	if useNotify {
		cfg.NotifyCh = notify
	}
	r.conf.Store(cfg)
	if vChoose("leaderChStale", 0, 1) == 1 {
		r.leaderCh <- false // an unread older value
	}
	vSpawnPolicy(false)
	pre := vSnap(r, env)
	vRunUntilBlocked(r.runLeader)
	// prologue: true announced, no-op of the new term dispatched first
	vAssert(len(r.leaderCh) == 1, "C18.runleader.leaderch-holds-one-value")
	nStore := 0
	for _, c := range env.logs.calls {
		if c.op == opStoreLogs {
			nStore++
			vAssert(c.a == lastIndex+1 && c.b == lastIndex+1, "C12.runleader.noop-first")
		}
	}
	vAssert(nStore == 1 && env.logs.typ.Get(lastIndex+1) == uint64(LogNoop) && env.logs.term.Get(lastIndex+1) == pre.term, "C12.runleader.noop-of-new-term-dispatched")
	vAssert(r.leaderState.commitment.startIndex == lastIndex+1, "C05.runleader.start-index")
	// client work: two applies and a verify stay pending (the only peer never answers)
	f1, f2 := vArbFuture("f"), vArbFuture("f")
	r.applyCh <- f1
	r.applyCh <- f2
	vf := &verifyFuture{}
	vf.init()
	r.verifyCh <- vf
	vQuiesce()
	d1, _ := vFutureErr(&f1.deferError)
	d2, _ := vFutureErr(&f2.deferError)
	vAssert(!d1 && !d2 && !vf.responded, "C08.runleader.uncommitted-stay-pending")
	vAssert(r.leaderState.inflight.Len() == 3, "C08.runleader.inflight-owned")
	// lose leadership
	switch vChoose("exit", 0, 1) {
	case 0:
		r.leaderState.stepDown <- struct{}{}
	case 1:
		r.setState(Follower) // as a handler running on the main thread would (higher-term RPC)
		r.leaderNotifyCh <- struct{}{}
	}
	vQuiesce()
	post := vSnap(r, env)
	vAssert(post.state == Follower, "C18.runleader.exit-state-not-leader")
	for _, f := range []*logFuture{f1, f2} {
		done, err := vFutureErr(&f.deferError)
		vAssert(done && err == ErrLeadershipLost, "C17.runleader.inflight-answered-on-stepdown")
		vAssert(done && err == ErrLeadershipLost, "C08.runleader.inflight-leadership-lost")
	}
	vAssert(vf.responded && vf.Error() == ErrLeadershipLost, "C17.runleader.verify-answered-on-stepdown")
	vAssert(r.leaderState.inflight == nil && r.leaderState.replState == nil && r.leaderState.commitment == nil, "C08.runleader.leader-state-cleared")
	vAssert(post.leaderAddr == "" && post.leaderID == "", "C18.runleader.leader-hint-cleared")
	// notifications: exactly true then false on the same channel; LeaderCh holds the latest transition
	if useNotify {
		vAssert(len(notify) == 2, "C18.runleader.notify-exactly-two")
		a := <-notify
		b := <-notify
		vAssert(a && !b, "C18.runleader.notify-true-then-false")
	} else {
		vAssert(len(notify) == 0, "C18.runleader.no-notify-without-channel")
	}
	vAssert(len(r.leaderCh) == 1, "C18.runleader.leaderch-one-value")
	last := <-r.leaderCh
	vAssert(!last, "C18.runleader.leaderch-holds-latest")
	vReach("runleader.end")
}

// vh_override_notify: overrideNotifyBool on a capacity-1 channel in every occupancy.
func vh_override_notify() {
	ch := make(chan bool, 1)
	switch vChoose("occ", 0, 2) {
	case 1:
		ch <- false
	case 2:
		ch <- true
	}
	v := vBool("v")
	overrideNotifyBool(ch, v)
	vAssert(len(ch) == 1, "C18.override.exactly-one-value")
	got := <-ch
	vAssert(got == v, "C18.override.holds-latest")
	vReach("override.end")
}

// vh_run_leader_noop_fault: a runLeader activation whose very first log write (the no-op of the new
// term) fails: the server gains and at once loses leadership. Both transitions are announced, in order,
// on NotifyCh and LeaderCh holds the latest. C18 (faithful pairs), C17 (nothing stranded).
func vh_run_leader_noop_fault() {
	w := 2
	r, env := vNewRaft("L", vRaftOpts{n: 2, w: w, shaped: true})
	vAssume(vInvBasic(r, env))
	vAssume(vInvLog(r, env, w))
	servers := r.configurations.latest.Servers
	r.localID, r.localAddr = servers[0].ID, servers[0].Address
	vAssume(servers[0].Suffrage == Voter && servers[1].Suffrage == Voter)
	r.state = Leader
	r.leaderAddr, r.leaderID = r.localAddr, r.localID
	base := vBase()
	lastIndex := r.getLastIndex()
	vAssume(lastIndex >= base && lastIndex+1 <= base+uint64(w))
	notify := make(chan bool, 4)
	useNotify := vChoose("notifyCh", 0, 1) == 1
	cfg := r.conf.Load().(Config)
	if useNotify {
		cfg.NotifyCh = notify
	}
	r.conf.Store(cfg)
	if vChoose("leaderChStale", 0, 1) == 1 {
		r.leaderCh <- false
	}
	vSpawnPolicy(false)
	env.logs.failOn, env.logs.writesOnly = true, true
	vRunUntilBlocked(r.runLeader)
	env.logs.failOn = false
	stored := false
	for _, c := range env.logs.calls {
		if c.op == opStoreLogs && c.ok {
			stored = true
		}
	}
	if stored {
		vCover("noopfault.stored")
		vAssert(r.getState() == Leader, "C18.noopfault.still-leader-when-stored")
		if useNotify {
			vAssert(len(notify) == 1 && <-notify, "C18.noopfault.gain-announced")
		}
		vReach("noopfault.end")
		return
	}
	vCover("noopfault.failed")
	vAssert(r.getState() == Follower, "C18.noopfault.steps-down-when-noop-cannot-be-stored")
	vAssert(r.leaderState.inflight == nil && r.leaderState.replState == nil, "C17.noopfault.leader-state-cleared")
	if useNotify {
		vAssert(len(notify) == 2, "C18.noopfault.gain-and-loss-both-announced")
		if len(notify) == 2 {
			a := <-notify
			b := <-notify
			vAssert(a && !b, "C18.noopfault.true-then-false")
		}
	}
	vAssert(len(r.leaderCh) == 1, "C18.noopfault.leaderch-one-value")
	if len(r.leaderCh) == 1 {
		last := <-r.leaderCh
		vAssert(!last, "C18.noopfault.leaderch-holds-latest")
	}
	vReach("noopfault.end")
}
