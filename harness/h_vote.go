//go:build verif

package raft

// Vote / pre-vote handler obligations: C01.VOTE-ONCE, C06.VOTE-STEP,
// C03.UPTODATE, C14.PREVOTE-FRAME, C14.PREVOTE-GRANT, C18.LEADER-HINT(vote).

func vLexGE(t1, i1, t2, i2 uint64) bool { // (t1,i1) >= (t2,i2) lexicographically
	return vOr(t1 > t2, vAnd(t1 == t2, i1 >= i2))
}

// ghost: the (term, candidate) pair that last passed this server's log check
// and reached persistVote. R2+ : a vote record of the current term names it.
type vVoteGhost struct {
	term uint64
	cand []byte
}

func vInvVoteGhost(r *Raft, env *vEnv, g *vVoteGhost) bool {
	rec := vAnd(!vBlobIsNil(env.stable.voteCand), env.stable.voteTerm == r.currentTerm)
	return vImplies(rec, vAnd(g.term == env.stable.voteTerm, vBlobEq(g.cand, env.stable.voteCand)))
}

func vArbVoteReq(tag string) *RequestVoteRequest {
	return &RequestVoteRequest{
		RPCHeader:          RPCHeader{ProtocolVersion: ProtocolVersionMax, ID: vBlob(tag + ".id"), Addr: vBlob(tag + ".addr")},
		Term:               vU64(tag + ".term"),
		Candidate:          vBlob(tag + ".cand"),
		LastLogIndex:       vU64(tag + ".lli"),
		LastLogTerm:        vU64(tag + ".llt"),
		LeadershipTransfer: vBool(tag + ".lt"),
	}
}

func vCandidateBytes(req *RequestVoteRequest) []byte {
	if len(req.Addr) > 0 {
		return req.Addr
	}
	return req.Candidate
}

// vh_vote_step: one requestVote from an arbitrary R-state with an arbitrary
// request; every stable-store call may fail.
func vh_vote_step() {
	n := vChoose("n", 0, 2+vTier())
	r, env := vNewRaft("a", vRaftOpts{n: n, splitCommitted: true})
	env.stable.absentErr = vChoose("absentErr", 0, 1) == 1
	g := &vVoteGhost{term: vU64("g.term"), cand: vBlob("g.cand")}
	vAssume(vInvBasic(r, env))
	vAssume(vInvVoteGhost(r, env, g))
	req := vArbVoteReq("req")
	vAssume(req.Term < 1<<62)
	// stated precondition: every sender built on getRPCHeader sets the ID; the
	// ID-less legacy path skips the membership test by design (excluded)
	vAssume(len(req.ID) > 0)
	// a well-formed request names its sender (header Addr, or Candidate for protocol < 2 peers)
	vAssume(vOr(len(req.Addr) > 0, len(req.Candidate) > 0))
	cand := vCandidateBytes(req)
	pre := vSnap(r, env)
	myIdx, myTerm := r.getLastEntry()
	env.stable.failOn = true
	env.stable.hasT, env.stable.hasC = false, false
	rpc, ch := vMakeRPC(req)
	var out RPCResponse
	panicked := vCatch(func() { r.requestVote(rpc, req) })
	env.stable.failOn = false
	post := vSnap(r, env)
	if panicked {
		// only setCurrentTerm may panic (term could not be saved): nothing durable changed
		vCover("vote.panic-on-term-write")
		vAssert(post.stTerm == pre.stTerm && post.stVoteTerm == pre.stVoteTerm && vSameBlob(post.stVoteCand, pre.stVoteCand), "C06.vote.panic-no-durable-change")
		vAssert(post.term == pre.term, "C06.vote.panic-term-unchanged")
		vReach("vote.end")
		return
	}
	out = <-ch
	resp := out.Response.(*RequestVoteResponse)
	if env.stable.hasT && env.stable.hasC {
		g.term, g.cand = env.stable.pendT, env.stable.pendC
	}
	firstGrantPath := env.stable.hasT || env.stable.hasC
	if resp.Granted {
		vCover("vote.granted")
		// (a) durable before granted, for the very candidate and term
		vAssert(post.stVoteTerm == req.Term && vBlobEq(post.stVoteCand, cand) && !vBlobIsNil(post.stVoteCand), "C01.vote.granted-is-durable")
		vAssert(post.term == req.Term && resp.Term == req.Term && post.stTerm == req.Term, "C01.vote.granted-term")
		vAssert(post.stVoteTerm == req.Term && vBlobEq(post.stVoteCand, cand) && !vBlobIsNil(post.stVoteCand), "C06.vote.granted-is-durable")
		vAssert(vOr(len(pre.latest) == 0, vHasVoteT(Configuration{Servers: pre.latest}, ServerID(req.ID))), "C07.vote.nonvoter-never-granted")
		// (ii) voter membership, (iii) leader stickiness
		vAssert(vOr(len(pre.latest) == 0, vHasVoteT(Configuration{Servers: pre.latest}, ServerID(req.ID))), "C06.vote.granted-only-voter")
		vAssert(vOr(pre.leaderAddr == "", vOr(pre.leaderAddr == ServerAddress(cand), req.LeadershipTransfer)), "C06.vote.leader-sticky")
		vAssert(req.Term >= pre.term, "C06.vote.not-older-term")
		if firstGrantPath {
			vCover("vote.first-grant")
			// (i) candidate's log at least as up-to-date as ours
			vAssert(vLexGE(req.LastLogTerm, req.LastLogIndex, myTerm, myIdx), "C03.vote.uptodate")
			vAssert(vLexGE(req.LastLogTerm, req.LastLogIndex, myTerm, myIdx), "C06.vote.uptodate")
		} else {
			vCover("vote.re-grant")
			// a re-grant repeats a vote really cast in this term (ghost)
			vAssert(g.term == req.Term && vBlobEq(g.cand, cand), "C06.vote.regrant-was-granted")
			vAssert(g.term == req.Term && vBlobEq(g.cand, cand), "C03.vote.regrant-was-granted")
		}
	} else {
		vCover("vote.refused")
	}
	// (b) at most one candidate per term
	if pre.stVoteTerm == req.Term && !vBlobIsNil(pre.stVoteCand) && !vBlobEq(pre.stVoteCand, cand) {
		vCover("vote.other-candidate-same-term")
		vAssert(!resp.Granted, "C01.vote.once-per-term")
		vAssert(post.stVoteTerm == pre.stVoteTerm && vSameBlob(post.stVoteCand, pre.stVoteCand), "C01.vote.record-unchanged")
		vAssert(!resp.Granted, "C06.vote.once-per-term")
		vAssert(post.stVoteTerm == pre.stVoteTerm && vSameBlob(post.stVoteCand, pre.stVoteCand), "C06.vote.record-unchanged")
	}
	// (c) monotone
	vAssert(post.term >= pre.term && post.stTerm >= pre.stTerm, "C06.vote.term-mono")
	vAssert(post.stVoteTerm >= pre.stVoteTerm, "C06.vote.voteterm-mono")
	vAssert(resp.Term >= pre.term, "C06.vote.resp-term")
	// (d) invariant preserved
	vAssert(vInvBasic(r, env), "C06.vote.inv-R1R2")
	vAssertKF(vInvVoteGhost(r, env, g), vAnd(env.stable.hasT, !vAnd(env.stable.hasT, env.stable.hasC && post.stVoteTerm == req.Term && vBlobEq(post.stVoteCand, cand))), "C06.vote.inv-record-was-checked", "D1")
	// higher term => follower with that term; lower term => nothing changes
	if req.Term < pre.term {
		vCover("vote.stale-term")
		vAssert(vSameState(pre, post) && !resp.Granted, "C01.vote.stale-term-frame")
	}
	if post.term != pre.term {
		vCover("vote.term-adopted")
		vAssert(post.state == Follower && post.term == req.Term, "C01.vote.stepdown-on-higher-term")
		vAssert(post.leaderAddr == "" && post.leaderID == "", "C18.vote.leader-cleared-on-new-term")
	}
	// the log, commit index and configurations are never touched by a vote
	vAssert(post.commit == pre.commit && post.applied == pre.applied && post.logIdx == pre.logIdx && post.logTerm == pre.logTerm && post.storeCalls == pre.storeCalls, "C06.vote.frame-log")
	vAssert(post.latestIndex == pre.latestIndex && vSameServers(post.latest, pre.latest), "C06.vote.frame-config")
	vReach("vote.end")
}

// vAssertKF: property split by a known-finding cause (DESIGN 3.5). Anything
// violating the property outside the cause is a new violation; a violation
// inside the cause is reported under "KF:<finding>:<id>".
func vAssertKF(prop bool, cause bool, id string, finding string) {
	vAssert(vOr(cause, prop), id)
	vAssert(vOr(!cause, prop), "KF:"+finding+":"+id)
}

// vh_prevote_step: one requestPreVote from an arbitrary R-state.
func vh_prevote_step() {
	n := vChoose("n", 0, 2+vTier())
	r, env := vNewRaft("a", vRaftOpts{n: n, splitCommitted: true})
	vAssume(vInvBasic(r, env))
	req := &RequestPreVoteRequest{
		RPCHeader:    RPCHeader{ProtocolVersion: ProtocolVersionMax, ID: vBlob("req.id"), Addr: vBlob("req.addr")},
		Term:         vU64("req.term"),
		LastLogIndex: vU64("req.lli"),
		LastLogTerm:  vU64("req.llt"),
	}
	pre := vSnap(r, env)
	myIdx, myTerm := r.getLastEntry()
	env.stable.failOn = true
	rpc, ch := vMakeRPC(req)
	r.requestPreVote(rpc, req)
	env.stable.failOn = false
	post := vSnap(r, env)
	out := <-ch
	resp := out.Response.(*RequestPreVoteResponse)
	// FRAME: a pre-vote changes nothing, durable or volatile
	vAssert(vSameState(pre, post), "C14.prevote.frame")
	vAssert(post.stableCalls == pre.stableCalls && post.storeCalls == pre.storeCalls, "C14.prevote.no-store-writes")
	vAssert(vSameState(pre, post), "C06.prevote.frame")
	vAssert(out.Error == nil, "C14.prevote.no-error")
	if resp.Granted {
		vCover("prevote.granted")
		vAssert(vOr(pre.leaderAddr == "", pre.leaderAddr == ServerAddress(req.Addr)), "C14.prevote.no-grant-with-leader")
		vAssert(req.Term >= pre.term, "C14.prevote.not-older-term")
		vAssert(vOr(len(pre.latest) == 0, vHasVoteT(Configuration{Servers: pre.latest}, ServerID(req.ID))), "C14.prevote.granted-only-voter")
		vAssert(vLexGE(req.LastLogTerm, req.LastLogIndex, myTerm, myIdx), "C14.prevote.uptodate")
		vAssert(vLexGE(req.LastLogTerm, req.LastLogIndex, myTerm, myIdx), "C03.prevote.uptodate")
	} else {
		vCover("prevote.refused")
	}
	vAssert(resp.Term == vIte64(req.Term > pre.term, req.Term, pre.term) || (!resp.Granted && resp.Term == pre.term), "C14.prevote.resp-term")
	vReach("prevote.end")
}

// vh_process_rpc: the RPC dispatcher hands vote/pre-vote requests to their
// handlers whatever this server's own pre-vote setting is (a pre-vote-disabled
// server still answers pre-vote requests; only transports that do not know the
// RPC answer "unexpected command", which the asker counts as a grant).
func vh_process_rpc() {
	r, env := vNewRaft("a", vRaftOpts{n: 1})
	vAssume(vInvBasic(r, env))
	r.preVoteDisabled = vChoose("preVoteDisabled", 0, 1) == 1
	hdr := RPCHeader{ProtocolVersion: ProtocolVersionMax, ID: vBlob("id"), Addr: vBlob("addr")}
	var cmd interface{}
	kind := vChoose("kind", 0, 1)
	if kind == 0 {
		cmd = &RequestPreVoteRequest{RPCHeader: hdr, Term: vU64("term"), LastLogIndex: vU64("lli"), LastLogTerm: vU64("llt")}
	} else {
		cmd = &RequestVoteRequest{RPCHeader: hdr, Term: vU64("term"), LastLogIndex: vU64("lli"), LastLogTerm: vU64("llt")}
	}
	rpc, ch := vMakeRPC(cmd)
	vCatch(func() { r.processRPC(rpc) })
	if len(ch) == 1 {
		out := <-ch
		vAssert(out.Error == nil, "C14.dispatch.vote-requests-reach-their-handler")
		if kind == 0 {
			_, ok := out.Response.(*RequestPreVoteResponse)
			vAssert(ok, "C14.dispatch.prevote-answered-by-prevote-handler")
		}
	}
	vReach("processrpc.end")
}
