//go:build verif

package raft

import "time"

// vh_quorum_glue: any two voter sets of quorum size in configurations that are
// equal or one nextConfiguration step apart intersect (C01.GLUE-QUORUM). The
// quorum sizes come from the real quorumSize, the successor configuration from
// the real nextConfiguration.
func vh_quorum_glue() {
	n := vChoose("n", 1, 3+vTier())
	r, env := vNewRaft("a", vRaftOpts{n: n})
	_ = env
	cur := r.configurations.latest
	q1 := r.quorumSize()
	req := configurationChangeRequest{
		command:       ConfigurationChangeCommand(vU8("cmd")),
		serverID:      ServerID(vStr("rid")),
		serverAddress: ServerAddress(vStr("raddr")),
	}
	next := cur
	if vChoose("changed", 0, 1) == 1 {
		nc, err := nextConfiguration(cur, 0, req)
		if err != nil {
			vReach("glue.rejected")
			return
		}
		next = nc
		vCover("glue.changed")
	}
	r.configurations.latest = next
	q2 := r.quorumSize()
	// arbitrary subsets A of voters(cur), B of voters(next)
	var sizeA, sizeB uint64
	inter := false
	inA := make([]bool, len(cur.Servers))
	for i, s := range cur.Servers {
		inA[i] = vAnd(vBool("inA"), s.Suffrage == Voter)
		sizeA += vB2U(inA[i])
	}
	for _, t := range next.Servers {
		inB := vAnd(vBool("inB"), t.Suffrage == Voter)
		sizeB += vB2U(inB)
		for i, s := range cur.Servers {
			inter = vOr(inter, vAnd(inB, vAnd(inA[i], s.ID == t.ID)))
		}
	}
	vAssert(vImplies(vAnd(sizeA >= uint64(q1), sizeB >= uint64(q2)), inter), "C01.glue.quorums-intersect")
	vAssert(vImplies(vAnd(sizeA >= uint64(q1), sizeB >= uint64(q2)), inter), "C07.glue.quorums-of-adjacent-configurations-intersect")
	vAssert(vImplies(vAnd(sizeA >= uint64(q1), sizeB >= uint64(q2)), inter), "C05.glue.commit-quorum-meets-election-quorum")
	vAssert(q1 >= 1 && uint64(2*q1) > vCountVoters(cur), "C01.glue.quorum-is-strict-majority")
	vReach("glue.end")
}

// vh_validate_config: ValidateConfig accepts only orderings the lease argument needs (C13.CONFIG-ORDER).
func vh_validate_config() {
	c := vDefaultConfig("x")
	c.HeartbeatTimeout = time.Duration(vI64("hb"))
	c.ElectionTimeout = time.Duration(vI64("el"))
	c.LeaderLeaseTimeout = time.Duration(vI64("lease"))
	c.CommitTimeout = time.Duration(vI64("commit"))
	c.SnapshotInterval = time.Duration(vI64("snapInterval"))
	c.MaxAppendEntries = vInt("maxAE")
	err := ValidateConfig(&c)
	if err == nil {
		vCover("validate.accepted")
		vAssert(c.LeaderLeaseTimeout >= 5*time.Millisecond && c.LeaderLeaseTimeout <= c.HeartbeatTimeout && c.HeartbeatTimeout <= c.ElectionTimeout, "C13.config.lease-le-heartbeat-le-election")
		vAssert(c.MaxAppendEntries >= 1 && c.MaxAppendEntries <= 1024, "C08.config.max-append-entries-bounds")
	} else {
		vCover("validate.rejected")
	}
	vReach("validate.end")
}

// vh_processlogs_shutdown: processLogs with the FSM channel full and the server
// shut down answers the batch's futures with ErrRaftShutdown (C17.PROCESSLOGS-SHUTDOWN).
func vh_processlogs_shutdown() {
	w := 2
	r, env := vNewRaft("a", vRaftOpts{n: 1, w: w, shaped: true})
	vShapeCommit(r, "a", w)
	vAssume(vInvBasic(r, env))
	vAssume(vInvLog(r, env, w))
	s := env.logs
	r.fsmMutateCh = make(chan interface{}, 1)
	r.fsmMutateCh <- struct{}{} // full
	close(r.shutdownCh)
	idx := r.lastApplied + 1
	vAssume(s.has(idx) && s.typ.Get(idx) == uint64(LogCommand))
	f := &logFuture{log: Log{Index: idx, Term: s.term.Get(idx), Type: LogCommand}}
	f.init()
	vAssertNoDeadlock("C17.processlogs.no-block-after-shutdown")
	r.processLogs(idx, map[uint64]*logFuture{idx: f})
	done, err := vFutureErr(&f.deferError)
	vAssert(done && err == ErrRaftShutdown, "C17.processlogs.shutdown-answers-futures")
	vReach("plshutdown.end")
}
