//go:build verif && !verif_native

package raft

import "time"

// Intrinsic declarations for the symbolic engine (gosym). The engine intercepts
// these functions by name; the bodies are placeholders (Go rejects body-less
// declarations without an assembly file). Native bodies for replay live in
// /verif/native (tag verif_native).

func vU64(name string) uint64   { panic("intrinsic") }
func vI64(name string) int64    { panic("intrinsic") }
func vInt(name string) int      { panic("intrinsic") }
func vU32(name string) uint32   { panic("intrinsic") }
func vU8(name string) uint8     { panic("intrinsic") }
func vBool(name string) bool    { panic("intrinsic") }
func vFail(name string) bool    { panic("intrinsic") }
func vStr(name string) string   { panic("intrinsic") }
func vBlob(name string) []byte  { panic("intrinsic") }
func vChoose(name string, lo, hi int) int { panic("intrinsic") }
func vAssume(c bool)            { panic("intrinsic") }
func vAssert(c bool, id string) { panic("intrinsic") }
func vCover(id string)          { panic("intrinsic") }
func vReach(id string)          { panic("intrinsic") }
func vNote(s string)            { panic("intrinsic") }
func vAnd(a, b bool) bool       { panic("intrinsic") }
func vOr(a, b bool) bool        { panic("intrinsic") }
func vImplies(a, b bool) bool   { panic("intrinsic") }
func vIte64(c bool, a, b uint64) uint64 { panic("intrinsic") }
func vIteBool(c bool, a, b bool) bool   { panic("intrinsic") }
func vIteStr(c bool, a, b string) string { panic("intrinsic") }
func vStrEq(a, b string) bool   { panic("intrinsic") }
func vBlobEq(a, b []byte) bool  { panic("intrinsic") }
func vBlobIsNil(a []byte) bool  { panic("intrinsic") }
func vB2U(b bool) uint64        { panic("intrinsic") }
func vBase() uint64             { panic("intrinsic") }

// vWin64 is a window of W symbolic 64-bit cells at absolute positions
// vBase()+1 .. vBase()+W. Reads outside return 0; writes outside end the path
// with status WINDOW (which fails the run).
type vWin64 struct{ _ int }

func vWinNew(name string, w int, bits int) *vWin64 { panic("intrinsic") }
func (w *vWin64) Get(i uint64) uint64      { panic("intrinsic") }
func (w *vWin64) Set(i uint64, v uint64)   { panic("intrinsic") }
func (w *vWin64) In(i uint64) bool         { panic("intrinsic") }

func vRunUntilBlocked(f func()) { panic("intrinsic") }
func vGo(f func())              { panic("intrinsic") }
func vQuiesce()                 { panic("intrinsic") }
func vSpawnPolicy(run bool)     { panic("intrinsic") }
func vGoAllow(substr string)    { panic("intrinsic") }
func vTimerMode(m int)          { panic("intrinsic") }
func vMapPerm(on bool)          { panic("intrinsic") }
func vAssertNoPanic(id string)  { panic("intrinsic") }
func vAssertNoDeadlock(id string) { panic("intrinsic") }
func vCatch(f func()) bool      { panic("intrinsic") }
func vTier() int                { panic("intrinsic") }
func (w *vWin64) Clone() *vWin64           { panic("intrinsic") }
func vBlobFromCell(x uint64) []byte        { panic("intrinsic") }
func vBlobToCell(b []byte) uint64          { panic("intrinsic") }
func vStrFromCell(x uint64) string         { panic("intrinsic") }
func vStrToCell(s string) uint64           { panic("intrinsic") }
func vEncodeConfiguration(c Configuration) []byte { panic("intrinsic") }
func vBaseAlign12()              { panic("intrinsic") }
func vTime(name string) time.Time  { panic("intrinsic") }
func vTimeNs(t time.Time) int64    { panic("intrinsic") }
func vLastNow() int64              { panic("intrinsic") }
func vNoIOFaults()                 { panic("intrinsic") }
func vIOSize(n int64)              { panic("intrinsic") }
func vFSCrashAt(k int)             { panic("intrinsic") }
func vFSOps() int                  { panic("intrinsic") }
func vFSCrashed() bool             { panic("intrinsic") }
func vFSApplyCrash()               { panic("intrinsic") }
func vFSMkdirAll(path string)      { panic("intrinsic") }
func vFSSyncAll()                  { panic("intrinsic") }
func vBlobID(b []byte) uint64      { panic("intrinsic") }
func vFileContent(b *bufferedFile) uint64 { panic("intrinsic") }
func vFSCorruptFile(path string) bool { panic("intrinsic") }
func vTimerFor(site string, mode int) { panic("intrinsic") }
func vLastTimerDuration() time.Duration { panic("intrinsic") }

// vVolatile marks an atomic int32 cell as changeable by other goroutines at any moment: every
// atomic load of it returns a fresh 0/1 (sound over-approximation of the interleavings on that cell).
func vVolatile(p *int32) { panic("intrinsic") }

// vIOCopyN(k): the byte count the k-th stubbed io.Copy of this path moved (-1: none yet).
func vIOCopyN(k int) int64 { panic("intrinsic") }
