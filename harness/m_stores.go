//go:build verif

package raft

import "errors"

// Model stores: the environment of every handler, written in plain Go over the
// window containers (vWin64) so that the same code runs natively in replays.
// Semantics follow InmemStore line by line; the obligation C19.STORE-REFINE
// checks the log store against the real InmemStore.

var errInjected = errors.New("injected store failure")

const (
	opFirstIndex = iota + 1
	opLastIndex
	opGetLog
	opStoreLogs
	opDeleteRange
	opStableSet
	opStableGet
	opStableSetU64
	opStableGetU64
	opStageCommit
	opGetCommit
	opSnapCreate
	opSnapClose
	opSnapCancel
	opSnapOpen
	opSnapList
	opFSMApply
	opFSMRestore
	opFSMSnapshot
	opFSMStoreConfig
)

// vCrashCtl: crash-point enumeration. Every durable mutating store call ticks the
// shared counter; the call with ordinal `at` does not happen: the server "crashes"
// (panic mCrash, caught by the harness) with exactly the durable image the earlier
// calls left. at == 0: no crash.
type vCrashCtl struct {
	n       int // durable calls seen so far
	max     int // bound on the crash points of one run (checked: reaching it fails the run)
	crashed bool
	over    bool
}

// tick is called at the start of every durable mutating store call: the run forks into "the process
// dies here" (the call and everything after it never happen) and "it goes on".
func (c *vCrashCtl) tick() {
	if c == nil || c.crashed {
		return
	}
	c.n++
	if c.n > c.max {
		c.over = true
		return
	}
	if vChoose("crashHere", 0, 1) == 1 {
		c.crashed = true
		panic(mCrash{})
	}
}

type mCall struct {
	op   int
	a, b uint64
	ok   bool
}

type mLogStore struct {
	low, high  uint64 // InmemStore.lowIndex / highIndex
	w          int    // window size
	present    *vWin64
	term       *vWin64
	typ        *vWin64
	data       *vWin64 // blob cell (content id + nil flag)
	ext        *vWin64
	failOn     bool
	writesOnly bool // with failOn: only StoreLogs/DeleteRange may fail
	calls      []mCall
	crash      *vCrashCtl
	// partialDelete: a failing DeleteRange may already have removed a prefix of the range (a backend
	// without transactions); default: failures are atomic
	partialDelete bool
}

// vNewLogStore creates a store with arbitrary content in the window
// base+1..base+w, constrained by the tidy InmemStore invariant:
// empty, or low..high inside the window with both ends present and nothing
// outside [low, high].
func vNewLogStore(tag string, w int) *mLogStore {
	s := &mLogStore{w: w,
		present: vWinNew(tag+".present", w, 64), term: vWinNew(tag+".term", w, 64),
		typ: vWinNew(tag+".typ", w, 64), data: vWinNew(tag+".data", w, 64), ext: vWinNew(tag+".ext", w, 64),
		low: vU64(tag + ".low"), high: vU64(tag + ".high")}
	base := vBase()
	empty := vAnd(s.low == 0, s.high == 0)
	inwin := vAnd(vAnd(s.low >= base+1, s.low <= s.high), s.high <= base+uint64(w))
	vAssume(vOr(empty, inwin))
	for k := 1; k <= w; k++ {
		idx := base + uint64(k)
		p := s.present.Get(idx)
		vAssume(p <= 1)
		vAssume(vImplies(p == 1, vAnd(s.low <= idx, idx <= s.high)))
		vAssume(vImplies(vAnd(!empty, vOr(idx == s.low, idx == s.high)), p == 1))
		vAssume(s.typ.Get(idx) <= 255)
		vAssume(vCanonBlobCell(s.data.Get(idx)))
		vAssume(vCanonBlobCell(s.ext.Get(idx)))
	}
	return s
}

// vNewLogStoreShaped: like vNewLogStore but the extent (low, high) is chosen by
// case split relative to the base and the log is contiguous: concrete shape,
// symbolic content. Positions then fold in the simplifier instead of burdening
// the solver.
func vNewLogStoreShaped(tag string, w int) *mLogStore {
	s := &mLogStore{w: w,
		present: vWinNew(tag+".present", w, 64), term: vWinNew(tag+".term", w, 64),
		typ: vWinNew(tag+".typ", w, 64), data: vWinNew(tag+".data", w, 64), ext: vWinNew(tag+".ext", w, 64)}
	base := vBase()
	hi := vChoose(tag+".hiOff", 0, w)
	lo := 0
	if hi > 0 {
		lo = vChoose(tag+".loOff", 1, hi)
		s.low, s.high = base+uint64(lo), base+uint64(hi)
	}
	for k := 1; k <= w; k++ {
		idx := base + uint64(k)
		if hi > 0 && k >= lo && k <= hi {
			s.present.Set(idx, 1)
		} else {
			s.present.Set(idx, 0)
		}
		vAssume(s.typ.Get(idx) <= 255)
		vAssume(vCanonBlobCell(s.data.Get(idx)))
		vAssume(vCanonBlobCell(s.ext.Get(idx)))
	}
	return s
}

// a blob cell is canonical: content id in the low 32 bits, bit 32 = nil flag, nil implies empty
func vCanonBlobCell(c uint64) bool { return vOr(c < 1<<32, c == 1<<32) }

// vEmptyLogStore creates an empty store whose window cells are unconstrained
// garbage (never read while absent).
func vEmptyLogStore(tag string, w int) *mLogStore {
	s := &mLogStore{w: w,
		present: vWinNew(tag+".present", w, 64), term: vWinNew(tag+".term", w, 64),
		typ: vWinNew(tag+".typ", w, 64), data: vWinNew(tag+".data", w, 64), ext: vWinNew(tag+".ext", w, 64)}
	base := vBase()
	for k := 1; k <= w; k++ {
		s.present.Set(base+uint64(k), 0)
	}
	return s
}

func (s *mLogStore) clone() *mLogStore {
	return &mLogStore{low: s.low, high: s.high, w: s.w, present: s.present.Clone(), term: s.term.Clone(),
		typ: s.typ.Clone(), data: s.data.Clone(), ext: s.ext.Clone(), failOn: s.failOn, writesOnly: s.writesOnly}
}

func (s *mLogStore) note(op int, a, b uint64, ok bool) {
	s.calls = append(s.calls, mCall{op, a, b, ok})
}

func (s *mLogStore) has(idx uint64) bool { return s.present.Get(idx) == 1 }

// contiguous reports that every index of [from, to] inside the window is present.
func (s *mLogStore) contiguous(from, to uint64) bool {
	ok := true
	base := vBase()
	for k := 1; k <= s.w; k++ {
		idx := base + uint64(k)
		ok = vAnd(ok, vImplies(vAnd(from <= idx, idx <= to), s.has(idx)))
	}
	return ok
}

func (s *mLogStore) FirstIndex() (uint64, error) {
	if s.failOn && !s.writesOnly && vFail("FirstIndex") {
		s.note(opFirstIndex, 0, 0, false)
		return 0, errInjected
	}
	s.note(opFirstIndex, s.low, 0, true)
	return s.low, nil
}

func (s *mLogStore) LastIndex() (uint64, error) {
	if s.failOn && !s.writesOnly && vFail("LastIndex") {
		s.note(opLastIndex, 0, 0, false)
		return 0, errInjected
	}
	s.note(opLastIndex, s.high, 0, true)
	return s.high, nil
}

func (s *mLogStore) GetLog(index uint64, log *Log) error {
	if s.failOn && !s.writesOnly && vFail("GetLog") {
		s.note(opGetLog, index, 0, false)
		return errInjected
	}
	if !s.has(index) {
		s.note(opGetLog, index, 0, false)
		return ErrLogNotFound
	}
	s.note(opGetLog, index, 0, true)
	*log = Log{Index: index, Term: s.term.Get(index), Type: LogType(s.typ.Get(index)),
		Data: vBlobFromCell(s.data.Get(index)), Extensions: vBlobFromCell(s.ext.Get(index))}
	return nil
}

func (s *mLogStore) StoreLog(log *Log) error { return s.StoreLogs([]*Log{log}) }

func (s *mLogStore) StoreLogs(logs []*Log) error {
	var first, last uint64
	if len(logs) > 0 {
		first, last = logs[0].Index, logs[len(logs)-1].Index
	}
	s.crash.tick()
	if s.failOn && vFail("StoreLogs") {
		s.note(opStoreLogs, first, last, false)
		return errInjected
	}
	for _, l := range logs {
		s.present.Set(l.Index, 1)
		s.term.Set(l.Index, l.Term)
		s.typ.Set(l.Index, uint64(l.Type))
		s.data.Set(l.Index, vBlobToCell(l.Data))
		s.ext.Set(l.Index, vBlobToCell(l.Extensions))
		s.low = vIte64(s.low == 0, l.Index, s.low)
		s.high = vIte64(l.Index > s.high, l.Index, s.high)
	}
	s.note(opStoreLogs, first, last, true)
	return nil
}

func (s *mLogStore) DeleteRange(min, max uint64) error {
	s.crash.tick()
	if s.failOn && vFail("DeleteRange") {
		if s.partialDelete {
			if cut := vChoose("DeleteRange.partial", 0, s.w); cut > 0 {
				upto := vBase() + uint64(cut)
				upto = vIte64(upto < max, upto, max)
				if upto >= min {
					s.applyDelete(min, upto)
				}
			}
		}
		s.note(opDeleteRange, min, max, false)
		return errInjected
	}
	s.applyDelete(min, max)
	s.note(opDeleteRange, min, max, true)
	return nil
}

func (s *mLogStore) applyDelete(min, max uint64) {
	base := vBase()
	for k := 1; k <= s.w; k++ {
		idx := base + uint64(k)
		del := vAnd(min <= idx, idx <= max)
		s.present.Set(idx, vIte64(del, 0, s.present.Get(idx)))
	}
	low := vIte64(min <= s.low, max+1, s.low)
	high := vIte64(max >= s.high, min-1, s.high)
	// an empty store stays empty (InmemStore itself would report low = max+1, high = MaxUint64 after
	// DeleteRange(0, max) on an empty store - an artefact of that test store, not of the LogStore contract)
	none := vOr(low > high, vAnd(s.low == 0, s.high == 0))
	s.low = vIte64(none, 0, low)
	s.high = vIte64(none, 0, high)
}

// flavours
// mMonoLogStore implements MonotonicLogStore; like LogCache it may be a shim that answers false
type mMonoLogStore struct {
	*mLogStore
	notMonotonic bool
}

func (s mMonoLogStore) IsMonotonic() bool { return !s.notMonotonic }

type mCommitLogStore struct {
	*mLogStore
	staged   uint64
	stageErr bool
}

func (s *mCommitLogStore) StageCommitIndex(idx uint64) error {
	s.crash.tick()
	if s.failOn && vFail("StageCommitIndex") {
		s.note(opStageCommit, idx, 0, false)
		return errInjected
	}
	s.staged = idx
	s.note(opStageCommit, idx, 0, true)
	return nil
}

func (s *mCommitLogStore) GetCommitIndex() (uint64, error) {
	if s.failOn && vFail("GetCommitIndex") {
		return 0, errInjected
	}
	return s.staged, nil
}

// ---- stable store ----

type mStable struct {
	term      uint64 // CurrentTerm (0 = never written)
	voteTerm  uint64
	voteCand  []byte // nil = absent
	failOn    bool
	absentErr bool // GetUint64 of an absent key returns "not found" (BoltDB convention) instead of (0, nil)
	calls     []mCall
	crashAt   int // >0: the call with this ordinal "crashes" (panics mCrash) before taking effect
	ncalls    int
	crash     *vCrashCtl
	// ghost: arguments of the vote-record write attempts of the current handler call
	hasT, hasC bool
	pendT      uint64
	pendC      []byte
}

type mCrash struct{}

func (s *mStable) tick() {
	s.crash.tick()
	s.ncalls++
	if s.crashAt > 0 && s.ncalls == s.crashAt {
		panic(mCrash{})
	}
}

func (s *mStable) Set(key []byte, val []byte) error {
	s.tick()
	if string(key) == "LastVoteCand" {
		s.hasC, s.pendC = true, val
	}
	if s.failOn && vFail("stable.Set") {
		s.calls = append(s.calls, mCall{opStableSet, 0, 0, false})
		return errInjected
	}
	if string(key) == "LastVoteCand" {
		s.voteCand = val
		s.calls = append(s.calls, mCall{opStableSet, 3, 0, true})
		return nil
	}
	panic("mStable.Set: unknown key")
}

func (s *mStable) Get(key []byte) ([]byte, error) {
	if s.failOn && vFail("stable.Get") {
		return nil, errInjected
	}
	if string(key) == "LastVoteCand" {
		if s.voteCand == nil {
			return nil, errors.New("not found")
		}
		return s.voteCand, nil
	}
	panic("mStable.Get: unknown key")
}

func (s *mStable) SetUint64(key []byte, val uint64) error {
	s.tick()
	if string(key) == "LastVoteTerm" {
		s.hasT, s.pendT = true, val
	}
	if s.failOn && vFail("stable.SetUint64") {
		s.calls = append(s.calls, mCall{opStableSetU64, 0, val, false})
		return errInjected
	}
	switch string(key) {
	case "CurrentTerm":
		s.term = val
		s.calls = append(s.calls, mCall{opStableSetU64, 1, val, true})
	case "LastVoteTerm":
		s.voteTerm = val
		s.calls = append(s.calls, mCall{opStableSetU64, 2, val, true})
	default:
		panic("mStable.SetUint64: unknown key")
	}
	return nil
}

func (s *mStable) GetUint64(key []byte) (uint64, error) {
	if s.failOn && vFail("stable.GetUint64") {
		return 0, errInjected
	}
	var v uint64
	switch string(key) {
	case "CurrentTerm":
		v = s.term
	case "LastVoteTerm":
		v = s.voteTerm
	default:
		panic("mStable.GetUint64: unknown key")
	}
	if s.absentErr && v == 0 {
		return 0, errors.New("not found")
	}
	return v, nil
}
