//go:build verif

package raft

// Crash-point enumeration (DESIGN 13.7): a durable handler runs from an arbitrary
// invariant-satisfying state; the k-th durable store call (k chosen by case split,
// 0 = none) does not happen - the process dies there; then the REAL NewRaft runs on
// whatever the stores hold. The recovered server must satisfy the representation
// invariant the step obligations start from (so "crash + restart" is closed under
// R), never report an older term, keep the vote record, keep everything this server
// knew committed, and - when the handler had answered before the crash - hold
// everything it acknowledged.

// vDurableImage completes the durable image of a server built by vNewRaft: the
// snapshot store holds the snapshot the server remembers (stamped with the
// committed configuration, as takeSnapshot/installSnapshot write it).
func vDurableImage(r *Raft, env *vEnv) {
	if r.lastSnapshotIndex != 0 {
		m := &SnapshotMeta{Version: SnapshotVersionMax, ID: "old", Index: r.lastSnapshotIndex, Term: r.lastSnapshotTerm,
			Configuration: r.configurations.committed.Clone(), ConfigurationIndex: r.configurations.committedIndex}
		env.snaps.metas = append(env.snaps.metas, m)
	}
}

func vArmCrash(env *vEnv, max int) *vCrashCtl {
	ctl := &vCrashCtl{max: max}
	env.logs.crash, env.stable.crash, env.snaps.crash = ctl, ctl, ctl
	return ctl
}

func vHasSnapshot(env *vEnv, id string) bool {
	for _, m := range env.snaps.metas {
		if m.ID == id {
			return true
		}
	}
	return false
}

func vDisarm(env *vEnv) {
	env.logs.crash, env.stable.crash, env.snaps.crash = nil, nil, nil
	env.logs.failOn, env.stable.failOn, env.snaps.failOn = false, false, false
}

// vRecover runs the real NewRaft (skipStartup: no goroutines) on the durable stores of env.
func vRecover(old *Raft, env *vEnv, restoreCommitted bool) (*Raft, *vEnv, error, bool) {
	vDisarm(env)
	conf := vDefaultConfig(old.localID)
	conf.skipStartup = true
	conf.RestoreCommittedLogs = restoreCommitted
	env2 := &vEnv{logs: env.logs, stable: env.stable, snaps: env.snaps, fsm: &mFSM{},
		trans: &mTrans{consumer: make(chan RPC, 1), local: old.localAddr}}
	env.snaps.noOpenFail = true
	var r2 *Raft
	var err error
	logs := old.logs
	panicked := vCatch(func() { r2, err = NewRaft(&conf, env2.fsm, logs, env.stable, env.snaps, env2.trans) })
	if err != nil {
		vCatch(func() { panic(err) }) // records the error text in the path notes
	}
	return r2, env2, err, panicked
}

// vh_crash_ae: appendEntries x crash point x NewRaft.
func vh_crash_ae() {
	w := 2 // both tiers; the thorough tier explores every commit / applied / leader-commit position
	r, env := vNewRaft("f", vRaftOpts{n: 1, w: w, shaped: true})
	s := env.logs
	l := vNewPeerLog("L", w)
	base := vBase()
	snapOff := 0
	for k := 0; k <= w; k++ {
		if r.lastSnapshotIndex == base+uint64(k) {
			snapOff = k
		}
	}
	lastOff := snapOff
	for k := 0; k <= w; k++ {
		if r.lastLogIndex == base+uint64(k) && k > lastOff {
			lastOff = k
		}
	}
	if vChoose("f.commitZero", 0, 1) == 1 {
		r.commitIndex = 0
	} else {
		r.commitIndex = base + uint64(vChoose("f.commitOff", 0, lastOff))
	}
	if vTier() == 0 {
		r.lastApplied = r.lastSnapshotIndex // quick tier: the commit index alone marks what is known committed
	} else {
		r.lastApplied = base + uint64(vChoose("f.appliedOff", snapOff, lastOff))
	}
	vAssume(vInvBasic(r, env))
	vAssume(vInvLog(r, env, w))
	vAssume(vLogMatching(r, s, l, w))
	vAssume(r.state == Follower)
	// no configuration entry in the window: both configurations date from the snapshot
	vAssume(r.configurations.latestIndex <= r.lastSnapshotIndex)
	a, sh := vBuildAE(l, "a", w)
	vAssume(a.Term >= r.currentTerm) // a newer leader's request as well: the term is then written first
	vAssume(len(a.Addr) > 0)
	if vTier() == 0 {
		a.LeaderCommitIndex = base + uint64(l.len*vChoose("a.lcAll", 0, 1)) // quick tier: nothing or everything committed
	} else {
		a.LeaderCommitIndex = base + uint64(vChoose("a.lcOff", 0, l.len))
	}
	vAssume(a.LeaderCommitIndex <= l.commit)
	for k := 1; k <= w; k++ {
		idx := base + uint64(k)
		vAssume(vImplies(vAnd(idx <= r.commitIndex, s.has(idx)), vAnd(k <= l.len, vSameAt(s, l, k))))
		vAssume(vImplies(vAnd(idx <= r.lastApplied, s.has(idx)), vAnd(k <= l.len, vSameAt(s, l, k))))
	}
	vAssume(vImplies(r.commitIndex > base, r.commitIndex <= base+uint64(l.len)))
	vAssume(r.lastApplied <= base+uint64(l.len))
	vAssume(r.lastSnapshotIndex <= base+uint64(l.len))
	for k := 0; k <= l.len; k++ {
		vAssume(vImplies(r.lastSnapshotIndex == base+uint64(k), l.termAtOff(k) == r.lastSnapshotTerm))
	}
	for k := sh.prevOff + sh.n + 1; k <= w; k++ {
		idx := base + uint64(k)
		vAssume(vImplies(vAnd(s.has(idx), idx <= a.LeaderCommitIndex), vAnd(k <= l.len, vSameAt(s, l, k))))
	}
	var cstore *mCommitLogStore
	if vChoose("commitTracking", 0, 1) == 1 {
		cstore = &mCommitLogStore{mLogStore: s, staged: r.commitIndex}
		r.logs = cstore
		r.RestoreCommittedLogs = true
	}
	vDurableImage(r, env)
	pre := vSnap(r, env)
	preStore := s.clone()
	preSnapIdx := r.lastSnapshotIndex
	ctl := vArmCrash(env, 5)
	rpc, ch := vMakeRPC(a)
	stopped := vCatch(func() { r.appendEntries(rpc, a) })
	vAssert(stopped == ctl.crashed, "C10.crash.ae.no-panic-of-its-own")
	vAssert(!ctl.over, "C10.crash.ae.crash-point-bound") // every durable call of the run was offered as a crash point
	acked := false
	last := base + uint64(sh.prevOff+sh.n)
	if !stopped {
		out := <-ch
		acked = out.Response.(*AppendEntriesResponse).Success
	}
	if ctl.crashed {
		vCover("crash.ae.crashed")
	}
	r2, env2, err, p2 := vRecover(r, env, cstore != nil)
	vAssert(!p2, "C10.crash.ae.recovery-no-panic")
	if p2 {
		return
	}
	vAssert(err == nil && r2 != nil, "C10.crash.ae.recovery-no-error")
	if err != nil || r2 == nil {
		return
	}
	// term and vote
	vAssert(r2.currentTerm == env.stable.term && r2.currentTerm >= pre.term, "C06.crash.ae.term-never-regresses")
	vAssert(r2.currentTerm == env.stable.term && r2.currentTerm >= pre.term, "C10.crash.ae.term-recovered")
	vAssert(env.stable.voteTerm == pre.stVoteTerm && vSameBlob(env.stable.voteCand, pre.stVoteCand), "C06.crash.ae.vote-record-untouched")
	// the recovered server is a state the step obligations start from
	vAssert(vInvBasic(r2, env2), "C10.crash.ae.recovered-inv-basic")
	vAssertInvLog(r2, env2, w, "C10.crash.ae.recovered-inv-log")
	vAssert(r2.state == Follower && r2.leaderAddr == "" && r2.commitIndex <= r2.getLastIndex(), "C10.crash.ae.recovered-as-follower")
	vAssert(r2.lastSnapshotIndex == preSnapIdx && r2.lastSnapshotTerm == pre.snapTerm, "C10.crash.ae.snapshot-position-kept")
	if preSnapIdx != 0 {
		vAssert(vSameServers(r2.configurations.latest.Servers, pre.latest) && r2.configurations.latestIndex == pre.latestIndex, "C10.crash.ae.configuration-recovered")
	}
	// nothing this server knew committed is lost or altered, whatever the crash point
	for k := 1; k <= w; k++ {
		idx := base + uint64(k)
		known := vAnd(preStore.has(idx), vOr(idx <= pre.commit, idx <= pre.applied))
		same := vAnd(s.has(idx), vAnd(s.term.Get(idx) == preStore.term.Get(idx), vAnd(s.typ.Get(idx) == preStore.typ.Get(idx), s.data.Get(idx) == preStore.data.Get(idx))))
		vAssert(vImplies(known, same), "C03.crash.ae.committed-prefix-survives")
		vAssert(vImplies(known, same), "C10.crash.ae.committed-prefix-survives")
	}
	vAssert(vLogMatching(r2, s, l, w), "C04.crash.ae.log-matching-survives")
	if acked {
		vCover("crash.ae.acked-then-crashed")
		// durable before acknowledged: what was acknowledged is in the recovered log, identical to the sender's
		li, _ := r2.getLastLog()
		vAssert(vOr(li >= last, r2.lastSnapshotIndex >= last), "C03.crash.ae.acked-entries-durable")
		for k := 1; k <= sh.prevOff+sh.n; k++ {
			idx := base + uint64(k)
			vAssert(vImplies(idx > r2.lastSnapshotIndex, vAnd(s.has(idx), vSameAt(s, l, k))), "C03.crash.ae.acked-entries-identical")
		}
	}
	if cstore != nil {
		// replay of committed logs at start-up hands the FSM only agreed entries, in order
		next := r2.lastSnapshotIndex + 1
		for len(r2.fsmMutateCh) > 0 {
			b, ok := (<-r2.fsmMutateCh).([]*commitTuple)
			if !ok {
				continue
			}
			for _, ct := range b {
				vCover("crash.ae.replayed")
				okSame := false
				for k := 1; k <= l.len; k++ {
					idx := base + uint64(k)
					okSame = vOr(okSame, vAnd(ct.log.Index == idx, vAnd(ct.log.Term == l.term.Get(idx), vAnd(uint64(ct.log.Type) == l.typ.Get(idx), vBlobToCell(ct.log.Data) == l.data.Get(idx)))))
				}
				vAssert(okSame, "C02.crash.ae.replayed-entry-is-agreed")
				vAssert(okSame, "C10.crash.ae.replayed-entry-is-agreed")
				vAssert(ct.log.Index >= next, "C10.crash.ae.replay-in-order")
				vAssert(vOr(ct.log.Index <= pre.commit, ct.log.Index <= a.LeaderCommitIndex), "C10.crash.ae.replay-only-committed")
				next = ct.log.Index + 1
			}
		}
	}
	vReach("crash.ae.end")
}

// vh_crash_vote: requestVote x crash point x NewRaft x a second requestVote on the recovered server.
// C06.CRASH-SEQ / C01: whatever this server granted before the crash still binds it afterwards.
func vh_crash_vote() {
	w := 1
	n := 1 + vChoose("n", 0, vTier())
	r, env := vNewRaft("a", vRaftOpts{n: n, w: w, shaped: true})
	env.stable.absentErr = vTier() > 0 && vChoose("absentErr", 0, 1) == 1
	// one log shape in both tiers (the vote record does not depend on it): empty log on a snapshot.
	// All W=1 shapes did not finish in 80 minutes on 4 workers (> 230 000 paths), so they are not registered.
	vAssume(env.logs.high == 0 && r.lastSnapshotIndex == vBase()+1)
	g := &vVoteGhost{term: vU64("g.term"), cand: vBlob("g.cand")}
	vAssume(vInvBasic(r, env))
	vAssume(vInvLog(r, env, w))
	vAssume(vInvVoteGhost(r, env, g))
	vAssume(r.configurations.latestIndex <= r.lastSnapshotIndex)
	vAssume(r.lastSnapshotIndex != 0) // the configuration is recovered from the snapshot
	vDurableImage(r, env)
	req := vArbVoteReq("req")
	vAssume(req.Term < 1<<62)
	vAssume(len(req.ID) > 0)
	vAssume(vOr(len(req.Addr) > 0, len(req.Candidate) > 0))
	cand := vCandidateBytes(req)
	pre := vSnap(r, env)
	ctl := vArmCrash(env, 4)
	rpc, ch := vMakeRPC(req)
	stopped := vCatch(func() { r.requestVote(rpc, req) })
	vAssert(stopped == ctl.crashed, "C06.crash.vote.no-panic-of-its-own")
	vAssert(!ctl.over, "C06.crash.vote.crash-point-bound") // every durable call of the run was offered as a crash point
	granted1 := false
	if !stopped {
		out := <-ch
		granted1 = out.Response.(*RequestVoteResponse).Granted
	}
	postTerm := r.currentTerm
	if ctl.crashed {
		vCover("crash.vote.crashed")
	}
	// the durable image at the crash point: vote term never ahead of the term
	vAssert(env.stable.voteTerm <= env.stable.term, "C06.crash.vote.durable-vote-term-le-term")
	vAssert(env.stable.term >= pre.stTerm && env.stable.voteTerm >= pre.stVoteTerm, "C06.crash.vote.durable-terms-monotone")
	r2, env2, err, p2 := vRecover(r, env, false)
	vAssert(!p2 && err == nil && r2 != nil, "C10.crash.vote.recovery-ok")
	if p2 || err != nil || r2 == nil {
		return
	}
	vAssert(r2.currentTerm == env.stable.term && r2.currentTerm >= pre.term, "C06.crash.vote.term-never-regresses")
	if !stopped {
		// a reply was sent: the term it was sent under is durable
		vAssert(r2.currentTerm == postTerm, "C06.crash.vote.replied-term-is-durable")
		vAssert(r2.currentTerm == postTerm, "C01.crash.vote.replied-term-is-durable")
	}
	vAssert(vInvBasic(r2, env2), "C10.crash.vote.recovered-inv-basic")
	if n > 0 {
		vAssert(vSameServers(r2.configurations.latest.Servers, pre.latest), "C10.crash.vote.configuration-recovered")
	}
	// second request, on the recovered server
	req2 := vArbVoteReq("req2")
	vAssume(req2.Term < 1<<62)
	vAssume(len(req2.ID) > 0)
	vAssume(vOr(len(req2.Addr) > 0, len(req2.Candidate) > 0))
	cand2 := vCandidateBytes(req2)
	// the second request competes for a term this server may already have voted in (other terms: vh_vote_step)
	vAssume(vOr(req2.Term == req.Term, req2.Term == pre.term))
	rpc2, ch2 := vMakeRPC(req2)
	vAssertNoPanic("C06.crash.vote.second-no-panic")
	r2.requestVote(rpc2, req2)
	out2 := <-ch2
	granted2 := out2.Response.(*RequestVoteResponse).Granted
	if granted1 && granted2 && req2.Term == req.Term {
		vCover("crash.vote.granted-twice-same-term")
		vAssert(vBlobEq(cand2, cand), "C01.crash.vote.one-candidate-per-term-across-restart")
		vAssert(vBlobEq(cand2, cand), "C06.crash.vote.one-candidate-per-term-across-restart")
	}
	// a vote this server had on record for its current term before the step binds it too (it may have been granted)
	if granted2 && pre.stVoteTerm == pre.term && req2.Term == pre.stVoteTerm && !vBlobIsNil(pre.stVoteCand) {
		vCover("crash.vote.earlier-record-same-term")
		vAssert(vBlobEq(cand2, pre.stVoteCand), "C06.crash.vote.earlier-vote-still-binds")
		vAssert(vBlobEq(cand2, pre.stVoteCand), "C01.crash.vote.earlier-vote-still-binds")
	}
	if granted2 {
		vAssert(req2.Term >= pre.term, "C06.crash.vote.no-grant-in-older-term-after-restart")
	}
	vReach("crash.vote.end")
}

// vh_crash_install: installSnapshot (FSM goroutine running) x crash point x NewRaft.
// C10/C11: the snapshot a restart restores is the old one or the complete new one, never something in
// between; no index is lost between the snapshot and the log; term never regresses.
func vh_crash_install() {
	w := 2
	flavour := vChoose("storeFlavour", 0, 1) // 0 plain, 1 monotonic
	mono := flavour == 1
	r, env := vNewRaft("f", vRaftOpts{n: 1, w: w, shaped: true, mono: mono})
	s := env.logs
	l := vNewPeerLog("L", w)
	base := vBase()
	vAssume(vInvBasic(r, env))
	vAssume(vInvLog(r, env, w))
	vAssume(vLogMatching(r, s, l, w))
	for k := 1; k <= w; k++ {
		idx := base + uint64(k)
		vAssume(vImplies(vAnd(vOr(idx <= r.commitIndex, idx <= r.lastApplied), s.has(idx)), vAnd(k <= l.len, vSameAt(s, l, k))))
	}
	vAssume(r.lastSnapshotIndex <= base+uint64(l.len))
	for k := 0; k <= l.len; k++ {
		vAssume(vImplies(r.lastSnapshotIndex == base+uint64(k), l.termAtOff(k) == r.lastSnapshotTerm))
	}
	vAssume(r.configurations.latestIndex <= r.lastSnapshotIndex)
	siOff := vChoose("siOff", 0, l.len)
	si := base + uint64(siOff)
	vAssume(si >= 1)
	vAssume(si >= r.lastSnapshotIndex) // a snapshot older than the follower's own: vh_install_stale
	cfg := vConfig("snapcfg", 1, false)
	req := &InstallSnapshotRequest{
		RPCHeader:       RPCHeader{ProtocolVersion: ProtocolVersionMax, ID: vBlob("req.id"), Addr: vBlob("req.addr")},
		SnapshotVersion: SnapshotVersionMax,
		Term:            vU64("req.term"), Leader: vBlob("req.leader"),
		LastLogIndex: si, LastLogTerm: l.termAtOff(siOff),
		Configuration: vEncodeConfiguration(cfg), ConfigurationIndex: vU64("req.cfgIndex"),
		Size: vI64("req.size"),
	}
	vAssume(req.Term < 1<<62 && req.Term >= l.lastTerm() && req.Term >= r.currentTerm)
	vAssume(req.Size >= 0 && req.ConfigurationIndex <= si)
	vAssume(len(req.ID) > 0)
	vAssume(r.state == Follower)
	vNoIOFaults()
	vIOSize(req.Size)
	vDurableImage(r, env)
	pre := vSnap(r, env)
	preStore := s.clone()
	hadSnapEntry := vAnd(preStore.has(si), preStore.term.Get(si) == req.LastLogTerm)
	vGo(r.runFSM)
	ctl := vArmCrash(env, 5)
	rpc, ch := vMakeRPC(req)
	rpc.Reader = &mReader{}
	stopped := vCatch(func() { r.installSnapshot(rpc, req) })
	vAssert(stopped == ctl.crashed, "C10.crash.install.no-panic-of-its-own")
	vAssert(!ctl.over, "C10.crash.install.crash-point-bound") // every durable call of the run was offered as a crash point
	success := false
	if !stopped {
		out := <-ch
		success = out.Response.(*InstallSnapshotResponse).Success
	}
	newDurable := vHasSnapshot(env, "snap")
	if ctl.crashed {
		vCover("crash.install.crashed")
	}
	r2, env2, err, p2 := vRecover(r, env, false)
	vAssert(!p2, "C10.crash.install.recovery-no-panic")
	if p2 {
		return
	}
	vAssert(err == nil && r2 != nil, "C10.crash.install.recovery-no-error")
	if err != nil || r2 == nil {
		return
	}
	vAssert(r2.currentTerm == env.stable.term && r2.currentTerm >= pre.term, "C06.crash.install.term-never-regresses")
	vAssert(r2.currentTerm == env.stable.term && r2.currentTerm >= pre.term, "C10.crash.install.term-recovered")
	nRestore := 0
	for _, c := range env2.fsm.calls {
		if c.op == opFSMRestore {
			nRestore++
		}
	}
	if success {
		vCover("crash.install.success-then-crashed")
		vAssert(newDurable, "C11.crash.install.acknowledged-snapshot-is-durable")
		vAssert(newDurable, "C10.crash.install.acknowledged-snapshot-is-durable")
	}
	if newDurable {
		vCover("crash.install.new-snapshot-recovered")
		vAssert(r2.lastSnapshotIndex == si && r2.lastSnapshotTerm == req.LastLogTerm && nRestore == 1, "C10.crash.install.restart-restores-new-snapshot")
		vAssert(r2.lastApplied == si, "C10.crash.install.applied-is-snapshot-index")
		vAssert(r2.configurations.latestIndex == req.ConfigurationIndex && vSameServers(r2.configurations.latest.Servers, cfg.Servers), "C10.crash.install.configuration-from-new-snapshot")
	} else {
		vCover("crash.install.old-snapshot-recovered")
		vAssert(r2.lastSnapshotIndex == pre.snapIdx && r2.lastSnapshotTerm == pre.snapTerm, "C10.crash.install.restart-restores-old-snapshot")
		vAssert(r2.lastSnapshotIndex == pre.snapIdx && r2.lastSnapshotTerm == pre.snapTerm, "C11.crash.install.no-half-installed-snapshot")
		// nothing was deleted before the new snapshot was durable
		vAssert(s.low == preStore.low && s.high == preStore.high, "C11.crash.install.no-compaction-before-durable")
	}
	// no history lost: every retained index is covered by the recovered snapshot or present, whatever the crash point
	for k := 1; k <= w; k++ {
		idx := base + uint64(k)
		vAssert(vImplies(vAnd(preStore.has(idx), idx > r2.lastSnapshotIndex), vOr(s.has(idx), mono)), "C11.crash.install.nothing-above-recovered-snapshot-lost")
	}
	// the recovered server is a state the step obligations start from (known finding D3 excepted: stale entries kept)
	cause := vOr(!hadSnapEntry, mono)
	inv := vInvLogClauses(r2, env2, w)
	for i, b := range inv {
		if !newDurable {
			vAssert(b, "C10.crash.install.recovered-inv-log."+vInvLogNames[i])
		} else {
			vAssertKF(b, cause, "C10.crash.install.recovered-inv-log."+vInvLogNames[i], "D3")
		}
	}
	vAssert(vInvBasic(r2, env2), "C10.crash.install.recovered-inv-basic")
	vReach("crash.install.end")
}

// vh_crash_snapshot: takeSnapshot + compactLogs (real FSM goroutine and follower loop) x crash point x NewRaft.
// C11: a crash at any point leaves a snapshot/log pair from which nothing is missing.
func vh_crash_snapshot() {
	w := 2
	r, env := vNewRaft("a", vRaftOpts{n: 1, w: w, shaped: true})
	s := env.logs
	vShapeCommit(r, "a", w)
	vAssume(vInvBasic(r, env))
	vAssume(vInvLog(r, env, w))
	vAssume(r.configurations.latestIndex <= r.lastSnapshotIndex)
	r.state = Follower
	fsm := &mSnapFSM{}
	r.fsm = fsm
	applied := r.lastApplied
	if !s.has(applied) {
		vAssume(false) // nothing to snapshot: covered by vh_take_snapshot
	}
	fsmTerm := s.term.Get(applied)
	r.fsmMutateCh <- []*commitTuple{{&Log{Index: applied, Term: fsmTerm, Type: LogCommand}, nil}}
	cfg := r.conf.Load().(Config)
	cfg.TrailingLogs = uint64(vChoose("trailing", 0, 2))
	r.conf.Store(cfg)
	vDurableImage(r, env)
	vGo(r.runFSM)
	vGo(r.runFollower)
	vTimerMode(0)
	pre := vSnap(r, env)
	preStore := s.clone()
	base := vBase()
	ctl := vArmCrash(env, 4)
	var terr error
	stopped := vCatch(func() { _, terr = r.takeSnapshot() })
	vAssert(stopped == ctl.crashed, "C11.crash.snapshot.no-panic-of-its-own")
	vAssert(!ctl.over, "C11.crash.snapshot.crash-point-bound") // every durable call of the run was offered as a crash point
	if ctl.crashed {
		vCover("crash.snapshot.crashed")
	}
	newDurable := vHasSnapshot(env, "snap")
	if !stopped && terr == nil {
		vAssert(newDurable, "C11.crash.snapshot.reported-snapshot-is-durable")
	}
	r2, env2, err, p2 := vRecover(r, env, false)
	vAssert(!p2, "C11.crash.snapshot.recovery-no-panic")
	vAssert(!p2, "C10.crash.snapshot.recovery-no-panic")
	if p2 {
		return
	}
	vAssert(err == nil && r2 != nil, "C10.crash.snapshot.recovery-no-error")
	if err != nil || r2 == nil {
		return
	}
	nRestore := 0
	for _, c := range env2.fsm.calls {
		if c.op == opFSMRestore {
			nRestore++
		}
	}
	if newDurable {
		vCover("crash.snapshot.new-snapshot-recovered")
		vAssert(r2.lastSnapshotIndex == applied && r2.lastSnapshotTerm == fsmTerm && nRestore == 1, "C11.crash.snapshot.restart-restores-new-snapshot")
	} else {
		vCover("crash.snapshot.old-snapshot-recovered")
		vAssert(r2.lastSnapshotIndex == pre.snapIdx && r2.lastSnapshotTerm == pre.snapTerm, "C11.crash.snapshot.restart-restores-old-snapshot")
		vAssert(s.low == preStore.low && s.high == preStore.high, "C11.crash.snapshot.no-compaction-before-durable")
	}
	// nothing above the recovered snapshot is missing, and the last entry is kept
	for k := 1; k <= w; k++ {
		idx := base + uint64(k)
		vAssert(vImplies(vAnd(preStore.has(idx), idx > r2.lastSnapshotIndex), s.has(idx)), "C11.crash.snapshot.nothing-above-recovered-snapshot-lost")
	}
	vAssert(r2.getLastIndex() == pre.logIdx || (pre.logIdx < pre.snapIdx && r2.getLastIndex() == pre.snapIdx), "C11.crash.snapshot.last-index-kept")
	vAssertInvLog(r2, env2, w, "C11.crash.snapshot.recovered-inv-log")
	vAssert(vInvBasic(r2, env2), "C10.crash.snapshot.recovered-inv-basic")
	if pre.snapIdx != 0 || newDurable {
		vAssert(vSameServers(r2.configurations.latest.Servers, pre.latest), "C10.crash.snapshot.configuration-recovered")
	}
	vReach("crash.snapshot.end")
}

// vh_crash_user_restore: restoreUserSnapshot on a leader x crash point x NewRaft.
// C20/C10: after a crash the server restarts either entirely before the restore or entirely after it
// (user snapshot at the burned index, FSM restored from it), never with the FSM restored but the
// durable state pointing elsewhere.
func vh_crash_user_restore() {
	w := 2
	flavour := vChoose("storeFlavour", 0, 1)
	mono := flavour == 1
	r, env := vNewRaft("L", vRaftOpts{n: 1, w: w, shaped: true, mono: mono})
	vAssume(vInvBasic(r, env))
	vAssume(vInvLog(r, env, w))
	vAssume(r.configurations.latestIndex <= r.lastSnapshotIndex)
	vAssume(r.lastSnapshotIndex != 0)
	vMakeLeader(r, "L", 0)
	s := env.logs
	lastIndex := r.getLastIndex()
	meta := &SnapshotMeta{Version: SnapshotVersionMax, Index: vU64("meta.index"), Term: vU64("meta.term"), Size: vI64("meta.size")}
	vAssume(meta.Index <= lastIndex && meta.Size >= 0) // keeps the burned index next to the window; larger indexes: vh_user_restore
	vNoIOFaults()
	vIOSize(meta.Size)
	vDurableImage(r, env)
	pre := vSnap(r, env)
	preStore := s.clone()
	vGo(r.runFSM)
	ctl := vArmCrash(env, 4)
	var rerr error
	stopped := vCatch(func() { rerr = r.restoreUserSnapshot(meta, &mReader{}) })
	vAssert(stopped == ctl.crashed, "C20.crash.restore.no-panic-of-its-own")
	vAssert(!ctl.over, "C20.crash.restore.crash-point-bound") // every durable call of the run was offered as a crash point
	if ctl.crashed {
		vCover("crash.restore.crashed")
	}
	newDurable := vHasSnapshot(env, "snap")
	if !stopped && rerr == nil {
		vAssert(newDurable, "C20.crash.restore.success-is-durable")
	}
	r2, env2, err, p2 := vRecover(r, env, false)
	vAssert(!p2 && err == nil && r2 != nil, "C10.crash.restore.recovery-ok")
	vAssert(!p2 && err == nil && r2 != nil, "C20.crash.restore.recovery-ok")
	if p2 || err != nil || r2 == nil {
		return
	}
	nRestore := 0
	for _, c := range env2.fsm.calls {
		if c.op == opFSMRestore {
			nRestore++
		}
	}
	if newDurable {
		vCover("crash.restore.user-snapshot-recovered")
		vAssert(r2.lastSnapshotIndex == lastIndex+1 && r2.lastSnapshotTerm == pre.term && nRestore == 1 && env.snaps.lastOpened == "snap", "C20.crash.restore.restart-restores-user-snapshot")
		vAssert(r2.getLastIndex() == lastIndex+1 && r2.lastApplied == lastIndex+1, "C20.crash.restore.burned-index-survives-restart")
		// nothing from before the restore can be applied on top of the restored state
		vAssert(r2.getLastIndex() > pre.logIdx, "C20.crash.restore.old-entries-below-restored-state")
	} else {
		vCover("crash.restore.old-state-recovered")
		vAssert(r2.lastSnapshotIndex == pre.snapIdx && r2.lastSnapshotTerm == pre.snapTerm, "C20.crash.restore.restart-before-restore")
		vAssert(s.low == preStore.low && s.high == preStore.high, "C20.crash.restore.log-untouched-before-durable")
	}
	vAssertInvLog(r2, env2, w+1, "C10.crash.restore.recovered-inv-log")
	vAssert(vInvBasic(r2, env2), "C10.crash.restore.recovered-inv-basic")
	vAssert(vSameServers(r2.configurations.latest.Servers, pre.latest) && r2.configurations.latestIndex == pre.latestIndex, "C20.crash.restore.configuration-kept")
	vReach("crash.restore.end")
}

// vh_processlogs_faults: processLogs whose store reads may fail, followed by a second processLogs call
// (the next commit advance). Whatever the first call did - finished, panicked (= crash) or returned early -
// the FSM is handed each committed index at most once and in order, and lastApplied never runs ahead of
// what was handed over. C02 (none skipped or repeated), C08 (each entry reaches the FSM once).
func vh_processlogs_faults() {
	w := 3
	r, env := vNewRaft("a", vRaftOpts{n: 1, w: w, shaped: true})
	vShapeCommit(r, "a", w)
	vAssume(vInvBasic(r, env))
	vAssume(vInvLog(r, env, w))
	s := env.logs
	base := vBase()
	cfgv := r.conf.Load().(Config)
	cfgv.MaxAppendEntries = 1 + vChoose("maxAE", 0, 1)
	r.conf.Store(cfgv)
	r.fsmMutateCh = make(chan interface{}, 16)
	pre := vSnap(r, env)
	target1 := base + uint64(vChoose("target1", 1, w))
	target2 := base + uint64(vChoose("target2", 1, w))
	vAssume(target1 > r.lastApplied && target1 <= r.getLastIndex())
	vAssume(target2 >= target1 && target2 <= r.getLastIndex())
	s.failOn = true
	panicked := vCatch(func() { r.processLogs(target1, nil) })
	s.failOn = false
	if panicked {
		vCover("plfault.panicked") // the process dies: a restart replays from the snapshot; nothing further to check here
		vReach("plfault.end")
		return
	}
	mid := r.lastApplied
	if mid != target1 {
		vCover("plfault.returned-early")
	}
	r.processLogs(target2, nil)
	vAssert(r.lastApplied >= pre.applied, "C02.plfault.applied-mono")
	expect := pre.applied + 1
	for len(r.fsmMutateCh) > 0 {
		b := (<-r.fsmMutateCh).([]*commitTuple)
		for _, ct := range b {
			vCover("plfault.fed")
			vAssert(ct.log.Index >= expect, "C02.plfault.no-entry-handed-over-twice")
			vAssert(ct.log.Index >= expect, "C08.plfault.no-entry-handed-over-twice")
			vAssert(ct.log.Index <= r.lastApplied, "C02.plfault.applied-covers-what-was-handed-over")
			okSkip := true
			for k := 1; k <= w; k++ {
				idx := base + uint64(k)
				okSkip = vAnd(okSkip, vImplies(vAnd(idx >= expect, idx < ct.log.Index), s.typ.Get(idx) == uint64(LogNoop)))
			}
			vAssert(okSkip, "C02.plfault.none-skipped")
			expect = ct.log.Index + 1
		}
	}
	vAssert(r.lastApplied == target2 || r.lastApplied == mid, "C02.plfault.applied-is-a-requested-index")
	vReach("plfault.end")
}

// vh_crash_ae_config: appendEntries that truncates / replaces / appends a CONFIGURATION entry x crash point
// x real NewRaft: the recovered latest configuration is the last configuration entry of the durable log
// above the snapshot, else the snapshot's (C10 "latest cluster configuration it had durably recorded", C07).
func vh_crash_ae_config() {
	w := 3
	r, env := vNewRaft("f", vRaftOpts{n: 1, w: w})
	s := env.logs
	base := vBase()
	vAssume(base >= 1)
	t1, t2 := vU64("f.t1"), vU64("f.t2")
	vAssume(t1 <= t2 && t2 <= r.currentTerm && r.currentTerm < 1<<62)
	cfgCommitted := vConfig("cfgCommitted", 1, false)
	cfgLatest := vConfig("cfgLatest", 1, false)
	s.low, s.high = base+1, base+2
	s.present.Set(base+1, 1)
	s.present.Set(base+2, 1)
	s.present.Set(base+3, 0)
	s.term.Set(base+1, t1)
	s.term.Set(base+2, t2)
	s.typ.Set(base+1, uint64(LogCommand))
	s.typ.Set(base+2, uint64(LogConfiguration))
	s.data.Set(base+2, vBlobToCell(vEncodeConfiguration(cfgLatest)))
	r.lastSnapshotIndex, r.lastSnapshotTerm = base, vU64("f.snapTerm")
	vAssume(r.lastSnapshotTerm <= t1)
	r.lastLogIndex, r.lastLogTerm = base+2, t2
	r.commitIndex, r.lastApplied = base+1, base+1
	r.state = Follower
	r.configurations.latest, r.configurations.latestIndex = cfgLatest, base+2
	r.configurations.committed, r.configurations.committedIndex = cfgCommitted, base
	vAssume(vInvBasic(r, env))
	vAssume(cfgCommitted.Servers[0].ID != cfgLatest.Servers[0].ID)
	vDurableImage(r, env) // snapshot at base carrying the committed configuration
	lt2 := vU64("L.t2")
	lcfg := vConfig("cfgNew", 1, false)
	vAssume(lcfg.Servers[0].ID != cfgLatest.Servers[0].ID && lcfg.Servers[0].ID != cfgCommitted.Servers[0].ID)
	isCfg := vChoose("L.entryIsConfig", 0, 1) == 1
	e := &Log{Index: base + 2, Term: lt2, Type: LogCommand, Data: vBlob("L.data")}
	if isCfg {
		e.Type = LogConfiguration
		e.Data = vEncodeConfiguration(lcfg)
	}
	a := &AppendEntriesRequest{
		RPCHeader: RPCHeader{ProtocolVersion: ProtocolVersionMax, ID: vBlob("a.id"), Addr: vBlob("a.addr")},
		Term:      r.currentTerm, PrevLogEntry: base + 1, PrevLogTerm: t1,
		Entries: []*Log{e}, LeaderCommitIndex: vU64("a.leaderCommit"),
	}
	vAssume(len(a.Addr) > 0 && lt2 >= t1 && lt2 <= a.Term && lt2 != t2) // a conflicting entry: the old configuration entry is cut
	vAssume(a.LeaderCommitIndex <= base+2)
	pre := vSnap(r, env)
	ctl := vArmCrash(env, 4)
	rpc, _ := vMakeRPC(a)
	stopped := vCatch(func() { r.appendEntries(rpc, a) })
	vAssert(stopped == ctl.crashed, "C10.crash.aeconfig.no-panic-of-its-own")
	vAssert(!ctl.over, "C10.crash.aeconfig.crash-point-bound")
	deleted, stored := false, false
	for _, c := range s.calls {
		if c.op == opDeleteRange && c.ok {
			deleted = true
		}
		if c.op == opStoreLogs && c.ok {
			stored = true
		}
	}
	r2, _, err, p2 := vRecover(r, env, false)
	vAssert(!p2 && err == nil && r2 != nil, "C10.crash.aeconfig.recovery-ok")
	if p2 || err != nil || r2 == nil {
		return
	}
	c := &r2.configurations
	switch {
	case !deleted:
		vCover("crash.aeconfig.before-truncation")
		vAssert(c.latestIndex == base+2 && vSameServers(c.latest.Servers, cfgLatest.Servers), "C10.crash.aeconfig.untouched-log-keeps-its-configuration")
		vAssert(c.latestIndex == base+2 && vSameServers(c.latest.Servers, cfgLatest.Servers), "C07.crash.aeconfig.untouched-log-keeps-its-configuration")
	case deleted && !stored, stored && !isCfg:
		vCover("crash.aeconfig.truncated")
		// the cut configuration entry is gone for good: the snapshot's (committed) configuration is in force again
		vAssert(c.latestIndex == pre.committedIndex && vSameServers(c.latest.Servers, cfgCommitted.Servers), "C10.crash.aeconfig.truncated-configuration-does-not-come-back")
		vAssert(c.latestIndex == pre.committedIndex && vSameServers(c.latest.Servers, cfgCommitted.Servers), "C07.crash.aeconfig.truncated-configuration-does-not-come-back")
	default:
		vCover("crash.aeconfig.new-config-stored")
		vAssert(c.latestIndex == base+2 && vSameServers(c.latest.Servers, lcfg.Servers), "C10.crash.aeconfig.stored-configuration-is-recovered")
		vAssert(c.latestIndex == base+2 && vSameServers(c.latest.Servers, lcfg.Servers), "C07.crash.aeconfig.stored-configuration-is-recovered")
	}
	vAssert(c.committedIndex <= c.latestIndex, "C07.crash.aeconfig.index-order")
	vAssert(r2.currentTerm >= pre.term, "C06.crash.aeconfig.term-never-regresses")
	vReach("crash.aeconfig.end")
}
