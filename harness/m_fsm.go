//go:build verif

package raft

import "io"

// mFSM records every call it receives.
type mFSM struct {
	calls []mFSMCall
	restoreFail bool
	// futures of later entries that must not be answered before this FSM has applied the earlier ones
	watch []*logFuture
	early bool
}

type mFSMCall struct {
	op         int
	index, term uint64
	typ        LogType
	data       []byte
	resp       uint64
}

type mFSMResp struct{ v uint64 }

func (f *mFSM) Apply(l *Log) interface{} {
	for _, w := range f.watch {
		if w.log.Index > l.Index && w.responded {
			f.early = true // a later future was answered before this entry reached the FSM
		}
	}
	v := vU64("fsm.resp")
	f.calls = append(f.calls, mFSMCall{op: opFSMApply, index: l.Index, term: l.Term, typ: l.Type, data: l.Data, resp: v})
	return mFSMResp{v}
}

func (f *mFSM) Snapshot() (FSMSnapshot, error) {
	f.calls = append(f.calls, mFSMCall{op: opFSMSnapshot})
	return nil, errInjected
}

func (f *mFSM) Restore(rc io.ReadCloser) error {
	f.calls = append(f.calls, mFSMCall{op: opFSMRestore})
	if f.restoreFail {
		return errInjected
	}
	return nil
}

// mSnapStore holds at most two snapshots.
type mSnapStore struct {
	metas []*SnapshotMeta
	calls []mCall
	failOn bool
	noOpenFail bool
	openFail   map[string]bool // per snapshot id: Open fails (unusable snapshot)
	lastOpened string
	sinks []*mSink
	crash *vCrashCtl
}

type mSink struct {
	store    *mSnapStore
	meta     SnapshotMeta
	written  int64
	closed   bool
	canceled bool
}

func (m *mSnapStore) Create(version SnapshotVersion, index, term uint64, configuration Configuration, configurationIndex uint64, trans Transport) (SnapshotSink, error) {
	if m.failOn && vFail("snap.Create") {
		m.calls = append(m.calls, mCall{opSnapCreate, index, term, false})
		return nil, errInjected
	}
	m.calls = append(m.calls, mCall{opSnapCreate, index, term, true})
	s := &mSink{store: m, meta: SnapshotMeta{Version: version, ID: "snap", Index: index, Term: term, Configuration: configuration.Clone(), ConfigurationIndex: configurationIndex}}
	m.sinks = append(m.sinks, s)
	return s, nil
}

func (m *mSnapStore) List() ([]*SnapshotMeta, error) {
	if m.failOn && vFail("snap.List") {
		return nil, errInjected
	}
	m.calls = append(m.calls, mCall{opSnapList, 0, 0, true})
	return m.metas, nil
}

func (m *mSnapStore) Open(id string) (*SnapshotMeta, io.ReadCloser, error) {
	if m.failOn && !m.noOpenFail && vFail("snap.Open") {
		m.calls = append(m.calls, mCall{opSnapOpen, 0, 0, false})
		return nil, nil, errInjected
	}
	if m.openFail[id] {
		m.calls = append(m.calls, mCall{opSnapOpen, 0, 0, false})
		return nil, nil, errInjected
	}
	for _, mt := range m.metas {
		if mt.ID == id {
			m.lastOpened = id
			m.calls = append(m.calls, mCall{opSnapOpen, mt.Index, mt.Term, true})
			return mt, &mReader{}, nil
		}
	}
	return nil, nil, errInjected
}

type mReader struct{ closed bool }

func (r *mReader) Read(p []byte) (int, error) { return 0, io.EOF }
func (r *mReader) Close() error               { r.closed = true; return nil }

func (s *mSink) Write(p []byte) (int, error) { return len(p), nil }
func (s *mSink) ID() string                  { return s.meta.ID }
func (s *mSink) Close() error {
	if s.closed {
		return nil // idempotent: takeSnapshot closes again after FSMSnapshot.Persist closed it
	}
	s.store.crash.tick() // the snapshot becomes durable (visible to List) at Close
	if s.store.failOn && vFail("sink.Close") {
		s.store.calls = append(s.store.calls, mCall{opSnapClose, s.meta.Index, s.meta.Term, false})
		return errInjected
	}
	s.closed = true
	s.meta.Size = s.written
	m := s.meta
	// List returns snapshots "in descending order, with the highest index first" (SnapshotStore contract);
	// among equal indexes the newer one comes first
	var out []*SnapshotMeta
	placed := false
	for _, old := range s.store.metas {
		if !placed && m.Index >= old.Index {
			out = append(out, &m)
			placed = true
		}
		out = append(out, old)
	}
	if !placed {
		out = append(out, &m)
	}
	s.store.metas = out
	s.store.calls = append(s.store.calls, mCall{opSnapClose, s.meta.Index, s.meta.Term, true})
	return nil
}
func (s *mSink) Cancel() error {
	s.canceled = true
	s.store.calls = append(s.store.calls, mCall{opSnapCancel, s.meta.Index, s.meta.Term, true})
	return nil
}

// mFSMSnapshot is what mSnapFSM.Snapshot returns: Persist finishes the sink
// (Close on success, Cancel on failure), as the FSMSnapshot contract says.
type mFSMSnapshot struct {
	released bool
	fail     bool
}

func (s *mFSMSnapshot) Persist(sink SnapshotSink) error {
	if s.fail {
		_ = sink.Cancel()
		return errInjected
	}
	return sink.Close()
}
func (s *mFSMSnapshot) Release() { s.released = true }

type mSnapFSM struct {
	mFSM
	snapFail, persistFail bool
	snaps                 []*mFSMSnapshot
}

func (f *mSnapFSM) Snapshot() (FSMSnapshot, error) {
	f.calls = append(f.calls, mFSMCall{op: opFSMSnapshot})
	if f.snapFail {
		return nil, errInjected
	}
	s := &mFSMSnapshot{fail: f.persistFail}
	f.snaps = append(f.snaps, s)
	return s, nil
}
