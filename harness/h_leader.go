//go:build verif

package raft

import (
	"container/list"
	"time"
)

// vMakeLeader turns r into a leader with an arbitrary leaderState (R6):
// replication state for every member other than self, arbitrary commitment.
// selfIdx < 0: the leader is not in its latest configuration.
func vMakeLeader(r *Raft, tag string, selfIdx int) {
	cfg := r.configurations.latest
	if selfIdx >= 0 {
		r.localID = cfg.Servers[selfIdx].ID
		r.localAddr = cfg.Servers[selfIdx].Address
	} else {
		for _, s := range cfg.Servers {
			vAssume(s.ID != r.localID)
			vAssume(s.Address != r.localAddr)
		}
	}
	r.state = Leader
	r.leaderAddr, r.leaderID = r.localAddr, r.localID
	ls := &r.leaderState
	ls.commitCh = make(chan struct{}, 1)
	ls.commitment = vCommitmentState(cfg, ls.commitCh)
	ls.inflight = list.New()
	ls.replState = make(map[ServerID]*followerReplication)
	ls.notify = make(map[*verifyFuture]struct{})
	ls.stepDown = make(chan struct{}, 1)
	for i, s := range cfg.Servers {
		if i == selfIdx {
			continue
		}
		// the replication routine's copy of the server record is refreshed only when the ADDRESS changes
		// (startStopReplication), so its suffrage may be out of date after a promotion or demotion
		peer := s
		stale := ServerSuffrage(vInt(tag + ".peerSuffrage"))
		vAssume(stale >= 0)
		vAssume(stale <= 2)
		peer.Suffrage = stale
		ls.replState[s.ID] = &followerReplication{
			currentTerm: r.currentTerm, nextIndex: vU64(tag + ".nextIndex"), peer: peer, commitment: ls.commitment,
			stopCh: make(chan uint64, 1), triggerCh: make(chan struct{}, 1), triggerDeferErrorCh: make(chan *deferError, 1),
			lastContact: vTime(tag + ".lastContact"), failures: vU64(tag + ".failures"),
			notifyCh: make(chan struct{}, 1), notify: make(map[*verifyFuture]struct{}), stepDown: ls.stepDown,
		}
	}
}

// C13.LEASE-STEP: one checkLeaderLease on an arbitrary leader.
func vh_lease_step() {
	n := vChoose("n", 1, 3+vTier())
	r, env := vNewRaft("a", vRaftOpts{n: n, splitCommitted: true})
	vAssume(vInvBasic(r, env))
	selfIdx := vChoose("self", -1, n-1)
	vMakeLeader(r, "a", selfIdx)
	cfg := r.conf.Load().(Config)
	lease := time.Duration(vI64("lease"))
	vAssume(lease >= 5*time.Millisecond && lease < time.Duration(1)<<42) // up to ~73 minutes
	cfg.LeaderLeaseTimeout = lease
	r.conf.Store(cfg)
	servers := r.configurations.latest.Servers
	t0 := time.Now()
	for _, f := range r.leaderState.replState {
		vAssume(!f.lastContact.After(t0)) // contacts happened in the past
	}
	pre := vSnap(r, env)
	maxDiff := r.checkLeaderLease()
	post := vSnap(r, env)
	checkNow := vLastNow() // the instant the check read (its only time.Now())
	// specification: contacted = [self is a voter] + #{voter p != self : now - lastContact_p <= lease}
	var contacted, voters uint64
	var specMax int64
	for i, s := range servers {
		isVoter := s.Suffrage == Voter
		voters += vB2U(isVoter)
		if i == selfIdx {
			contacted += vB2U(isVoter)
			continue
		}
		f := r.leaderState.replState[s.ID]
		diff := checkNow - vTimeNs(f.lastContact)
		within := vAnd(isVoter, diff <= int64(lease))
		contacted += vB2U(within)
		specMax = int64(vIte64(vAnd(within, diff > specMax), uint64(diff), uint64(specMax)))
	}
	quorum := voters/2 + 1
	if post.state != pre.state {
		vCover("lease.stepdown")
		vAssert(post.state == Follower, "C13.lease.stepdown-to-follower")
		vAssert(contacted < quorum, "C13.lease.stepdown-only-without-quorum")
		vAssert(post.leaderAddr == "" && post.leaderID == "", "C18.lease.leader-cleared")
	} else {
		vCover("lease.stay")
		vAssert(contacted >= quorum, "C13.lease.stay-only-with-quorum")
	}
	vAssert(int64(maxDiff) == specMax, "C13.lease.maxdiff-is-largest-contacted-voter")
	vAssert(maxDiff <= lease && maxDiff >= 0, "C13.lease.maxdiff-le-lease")
	vAssert(post.term == pre.term && post.commit == pre.commit && post.storeCalls == pre.storeCalls && post.stableCalls == pre.stableCalls, "C13.lease.frame")
	// next check interval (the lease case of leaderLoop): max(lease - maxDiff, 10ms), never negative, never above max(lease,10ms)
	interval := lease - maxDiff
	if interval < minCheckInterval {
		interval = minCheckInterval
	}
	vAssert(interval >= minCheckInterval && (interval <= lease || interval == minCheckInterval), "C13.lease.interval-bounds")
	// C13.BOUND (inductive step over checks): for every voter this check counted as contacted, the next
	// check is due no later than max(lastContact_p + lease, now + 10ms)
	due := checkNow + int64(interval)
	for i, s := range servers {
		if i == selfIdx {
			continue
		}
		f := r.leaderState.replState[s.ID]
		lc := vTimeNs(f.lastContact)
		counted := vAnd(s.Suffrage == Voter, checkNow-lc <= int64(lease))
		vAssert(vImplies(counted, int64(maxDiff) >= checkNow-lc), "C13.lease.maxdiff-dominates-counted-voters")
		vAssert(vImplies(counted, vOr(due <= lc+int64(lease), due <= checkNow+int64(minCheckInterval))), "C13.lease.next-check-before-expiry")
	}
	vReach("lease.end")
}

// C09.COUNT: verifyLeader + acknowledgements from an arbitrary subset of peers
// in an arbitrary order + the verify case of leaderLoop.
func vh_verify_count() {
	n := vChoose("n", 1, 3+vTier())
	r, env := vNewRaft("a", vRaftOpts{n: n, splitCommitted: true})
	vAssume(vInvBasic(r, env))
	selfIdx := vChoose("self", 0, n-1)
	vMakeLeader(r, "a", selfIdx)
	servers := r.configurations.latest.Servers
	v := &verifyFuture{}
	v.init()
	r.verifyCh <- v
	vRunUntilBlocked(r.leaderLoop) // serves the freshly dispatched future: verifyLeader(v)
	var voters, acks uint64
	for _, s := range servers {
		voters += vB2U(s.Suffrage == Voter)
	}
	quorum := voters/2 + 1
	vAssert(uint64(v.quorumSize) == quorum, "C09.verify.quorum-size")
	selfVoter := servers[selfIdx].Suffrage == Voter
	if v.responded {
		vCover("verify.immediate")
		vAssert(quorum == 1, "C09.verify.immediate-only-single-voter")
		return
	}
	// acknowledgements: every peer either acknowledges (success/failure) or stays silent
	nAck := 0
	negative := false    // a voter refused before the future was decided
	negativeAny := false // any peer refused (a non-voter's refusal may or may not be heeded)
	decided := false
	for i, s := range servers {
		if i == selfIdx {
			continue
		}
		switch vChoose("ack", 0, 2) {
		case 0: // silent
		case 1:
			repl := r.leaderState.replState[s.ID]
			if !decided {
				acks += vB2U(s.Suffrage == Voter)
			}
			nAck++
			repl.notifyAll(true)
		case 2:
			repl := r.leaderState.replState[s.ID]
			if !decided {
				negativeAny = true
				if s.Suffrage == Voter {
					negative = true
				}
			}
			repl.notifyAll(false)
		}
		if v.notifyCh == nil {
			decided = true // the future was handed back to the main loop: first decisive event wins
		}
	}
	_ = selfVoter
	vRunUntilBlocked(r.leaderLoop)
	if v.responded {
		err := v.Error()
		if err == nil {
			vCover("verify.success")
			vAssertKF(1+acks >= quorum, nAck > int(acks), "C09.verify.success-needs-voter-majority", "D2")
			vAssert(!negative, "C09.verify.success-without-negative-ack")
		} else {
			vCover("verify.failed")
			vAssert(err == ErrNotLeader, "C09.verify.fails-with-not-leader")
			vAssert(r.getState() == Follower, "C09.verify.negative-ack-steps-down")
			vAssert(negativeAny, "C09.verify.fail-only-on-negative-ack")
		}
		_, still := r.leaderState.notify[v]
		vAssert(!still, "C09.verify.cleaned")
	} else {
		vCover("verify.pending")
		vAssert(!negative, "C09.verify.negative-ack-decides")
	}
	vReach("verify.end")
}
