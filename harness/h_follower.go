//go:build verif

package raft

import "time"

// vh_follower_loop: runFollower run to its first park with one item queued on
// each client channel and the heartbeat timer either firing or not.
// C17.LOOP-ANSWERS, C13.REJECT-AFTER, C07.NONVOTER-INERT, C08 (non-leader refusals).
func vh_follower_loop() {
	n := vChoose("n", 0, 2)
	r, env := vNewRaft("f", vRaftOpts{n: n})
	vAssume(vInvBasic(r, env))
	r.state = Follower
	selfIdx := -1
	if n > 0 {
		selfIdx = vChoose("self", -1, n-1)
	}
	if selfIdx >= 0 {
		r.localID = r.configurations.latest.Servers[selfIdx].ID
	} else {
		for _, s := range r.configurations.latest.Servers {
			vAssume(s.ID != r.localID)
		}
	}
	r.configurations.committedIndex = vU64("committedIndex")
	vAssume(r.configurations.committedIndex <= r.configurations.latestIndex)
	vAssume(vImplies(n == 0, r.configurations.latestIndex == 0))
	vAssume(vImplies(n > 0, r.configurations.latestIndex > 0))
	r.lastContact = vTime("lastContact")
	af := vArbFuture("f")
	vf := &verifyFuture{}
	vf.init()
	lf := &leadershipTransferFuture{}
	lf.init()
	cf := &configurationsFuture{}
	cf.init()
	// one queue at a time (a select with k ready cases forks k ways per iteration: all 6 at once is 6! orders)
	which := vChoose("queue", 0, 5)
	ccf := &configurationChangeFuture{}
	ccf.init()
	uf := &userRestoreFuture{}
	uf.init()
	switch which {
	case 0:
		r.applyCh <- af
	case 1:
		r.verifyCh <- vf
	case 2:
		r.leadershipTransferCh <- lf
	case 3:
		r.configurationsCh <- cf
	case 4:
		vGo(func() { r.configurationChangeCh <- ccf })
	case 5:
		vGo(func() { r.userRestoreCh <- uf })
	}
	pre := vSnap(r, env)
	preLatest := r.configurations.latest.Clone()
	vTimerMode(3 * vChoose("heartbeatTimer", 0, 1)) // 3 = the first heartbeat timer fires, later ones do not
	vAssertNoPanic("C17.follower.no-panic")
	vRunUntilBlocked(r.runFollower)
	post := vSnap(r, env)
	// every queued client operation is answered ErrNotLeader, whatever else happened first;
	// the loop may leave for Candidate before draining everything, in which case the item is still queued (owned)
	check := func(d *deferError, queued bool, id string) {
		done, err := vFutureErr(d)
		if done {
			vAssert(err == ErrNotLeader, id)
		} else {
			vAssert(queued, id)
		}
	}
	switch which {
	case 0:
		check(&af.deferError, len(r.applyCh) == 1, "C17.follower.apply-refused-or-queued")
	case 1:
		check(&vf.deferError, len(r.verifyCh) == 1, "C17.follower.verify-refused-or-queued")
	case 2:
		check(&lf.deferError, len(r.leadershipTransferCh) == 1, "C17.follower.transfer-refused-or-queued")
	case 4:
		check(&ccf.deferError, post.state == Candidate, "C17.follower.config-change-refused-or-pending")
	case 5:
		check(&uf.deferError, post.state == Candidate, "C17.follower.restore-refused-or-pending")
	}
	if done, _ := vFutureErr(&af.deferError); done {
		vCover("follower.apply-refused")
		vAssert(post.storeCalls == pre.storeCalls && af.log.Index == 0, "C08.follower.refused-apply-never-stored")
		vAssert(post.storeCalls == pre.storeCalls, "C13.follower.rejects-writes")
	}
	if done, err := vFutureErr(&cf.deferError); done {
		vAssert(err == nil && vSameServers(cf.configurations.latest.Servers, preLatest.Servers), "C17.follower.configurations-answered")
	}
	if post.state == Candidate {
		vCover("follower.became-candidate")
		// only a voter of a known configuration starts an election
		vAssert(hasVote(preLatest, r.localID) && pre.latestIndex != 0, "C07.follower.only-voters-become-candidates")
		vAssert(post.leaderAddr == "" && post.leaderID == "", "C18.follower.leader-cleared-on-timeout")
		vAssert(post.term == pre.term && post.stableCalls == pre.stableCalls, "C14.follower.timeout-does-not-bump-term")
	} else {
		vCover("follower.stayed")
		vAssert(post.state == Follower, "C07.follower.state-follower")
		vAssert(post.term == pre.term, "C06.follower.term-unchanged")
	}
	_ = time.Second
	vReach("follower.end")
}
