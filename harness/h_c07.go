//go:build verif

package raft

// ---- branch-free specification helpers over configurations ----

func vConfigRaw(tag string, n int) Configuration {
	var cfg Configuration
	for i := 0; i < n; i++ {
		cfg.Servers = append(cfg.Servers, Server{
			Suffrage: ServerSuffrage(vInt(tag + ".suf")),
			ID:       ServerID(vStr(tag + ".id")),
			Address:  ServerAddress(vStr(tag + ".addr")),
		})
	}
	return cfg
}

func vHasVoteT(cfg Configuration, id ServerID) bool {
	r := false
	for _, s := range cfg.Servers {
		r = vOr(r, vAnd(s.ID == id, s.Suffrage == Voter))
	}
	return r
}

func vInConfigT(cfg Configuration, id ServerID) bool {
	r := false
	for _, s := range cfg.Servers {
		r = vOr(r, s.ID == id)
	}
	return r
}

func vContainsT(cfg Configuration, x Server) bool {
	r := false
	for _, s := range cfg.Servers {
		r = vOr(r, vAnd(s.ID == x.ID, vAnd(s.Address == x.Address, s.Suffrage == x.Suffrage)))
	}
	return r
}

// number of server ids that are a voter in exactly one of a, b
func vVoterDiff(a, b Configuration) uint64 {
	var n uint64
	for _, s := range a.Servers {
		n += vB2U(vAnd(s.Suffrage == Voter, !vHasVoteT(b, s.ID)))
	}
	for _, s := range b.Servers {
		n += vB2U(vAnd(s.Suffrage == Voter, !vHasVoteT(a, s.ID)))
	}
	return n
}

// the validity predicate checkConfiguration is documented to implement
func vValidConfigT(cfg Configuration) bool {
	ok := true
	var voters uint64
	for i, s := range cfg.Servers {
		ok = vAnd(ok, vAnd(s.ID != "", s.Address != ""))
		for j := 0; j < i; j++ {
			ok = vAnd(ok, vAnd(s.ID != cfg.Servers[j].ID, s.Address != cfg.Servers[j].Address))
		}
		voters += vB2U(s.Suffrage == Voter)
	}
	return vAnd(ok, voters >= 1)
}

func vSameServers(a []Server, b []Server) bool {
	if len(a) != len(b) {
		return false
	}
	ok := true
	for i := range a {
		ok = vAnd(ok, vAnd(a[i].ID == b[i].ID, vAnd(a[i].Address == b[i].Address, a[i].Suffrage == b[i].Suffrage)))
	}
	return ok
}

// C07.CHECK-CONFIG: checkConfiguration accepts exactly the valid configurations.
func vh_C07_check_config() {
	n := vChoose("n", 0, 3+vTier())
	cfg := vConfigRaw("cfg", n)
	err := checkConfiguration(cfg)
	if err == nil {
		vCover("C07.check.accepted")
		vAssert(vValidConfigT(cfg), "C07.check.accept-only-valid")
	} else {
		vCover("C07.check.rejected")
		vAssert(!vValidConfigT(cfg), "C07.check.reject-only-invalid")
	}
	vReach("C07.check.end")
}

// C07.NEXT-CONFIG: one nextConfiguration call on an arbitrary valid
// configuration with an arbitrary request.
func vh_C07_next_config() {
	n := vChoose("n", 1, 3+vTier())
	cur := vConfig("cur", n, false)
	vAssume(vCountVoters(cur) >= 1)
	// the caller's backing array has spare capacity in one variant (so that an
	// un-cloned append would write into it) and none in the other
	if vChoose("sparecap", 0, 1) == 1 {
		grown := make([]Server, n, n+2)
		copy(grown, cur.Servers)
		cur.Servers = grown
	}
	snap := make([]Server, n)
	copy(snap, cur.Servers)
	curIndex := vU64("curIndex")
	req := configurationChangeRequest{
		command:       ConfigurationChangeCommand(vU8("cmd")),
		serverID:      ServerID(vStr("rid")),
		serverAddress: ServerAddress(vStr("raddr")),
		prevIndex:     vU64("prevIndex"),
	}
	next, err := nextConfiguration(cur, curIndex, req)

	// the aliasing clause: the caller's configuration is untouched in all cases
	vAssert(len(cur.Servers) == n, "C07.next.caller-len")
	vAssert(vSameServers(cur.Servers[:n], snap), "C07.next.caller-unchanged")

	if req.prevIndex != 0 && req.prevIndex != curIndex {
		vCover("C07.next.stale-prev")
		vAssert(err != nil, "C07.next.stale-prev-rejected")
	}
	if err != nil {
		vCover("C07.next.error")
		vAssert(len(next.Servers) == 0, "C07.next.error-empty-result")
		vReach("C07.next.end")
		return
	}
	vCover("C07.next.ok")
	vAssert(vValidConfigT(next), "C07.next.valid")
	vAssert(vVoterDiff(cur, next) <= 1, "C07.next.one-voter")
	vAssert(vCountVoters(next) >= 1, "C07.next.has-voter")
	for _, s := range snap {
		vAssert(vImplies(s.ID != req.serverID, vContainsT(next, s)), "C07.next.others-kept")
	}
	for _, t := range next.Servers {
		vAssert(vImplies(t.ID != req.serverID, vContainsT(Configuration{Servers: snap}, t)), "C07.next.no-strangers")
	}
	switch req.command {
	case AddVoter:
		vCover("C07.next.addvoter")
		vAssert(vHasVoteT(next, req.serverID), "C07.next.addvoter-votes")
	case AddNonvoter:
		vCover("C07.next.addnonvoter")
		vAssert(vInConfigT(next, req.serverID), "C07.next.addnonvoter-member")
		// never demotes an existing voter, never promotes
		vAssert(vHasVoteT(next, req.serverID) == vHasVoteT(Configuration{Servers: snap}, req.serverID), "C07.next.addnonvoter-keeps-suffrage")
	case DemoteVoter:
		vCover("C07.next.demote")
		vAssert(!vHasVoteT(next, req.serverID), "C07.next.demote-no-vote")
		vAssert(vInConfigT(next, req.serverID) == vInConfigT(Configuration{Servers: snap}, req.serverID), "C07.next.demote-keeps-member")
	case RemoveServer:
		vCover("C07.next.remove")
		vAssert(!vInConfigT(next, req.serverID), "C07.next.remove-gone")
	case Promote:
		vCover("C07.next.promote")
	default:
		vCover("C07.next.unknown-command")
		vAssert(vSameServers(next.Servers, snap), "C07.next.unknown-command-noop")
	}
	vReach("C07.next.end")
}
