//go:build verif

package raft

// AppendEntries receiver obligations: C04.AE-MATCH, C04.TRUNC-ONLY-CONFLICT,
// C04.MONO, C05.FOLLOWER-COMMIT, C03.NO-TRUNC-COMMITTED, C02.AE-COMMIT,
// C01.TERM-STEPDOWN(ae), C09.ACK-MEANS-LEADER, C18.LEADER-HINT(ae).

// ghost peer log L: positions base+1..base+len all present; tm0 is the term at
// position base (the common point just below the window).
type vPeerLog struct {
	w      int
	len    int // concrete (case split)
	term   *vWin64
	typ    *vWin64
	data   *vWin64
	tm0    uint64
	commit uint64
}

func vNewPeerLog(tag string, w int) *vPeerLog {
	l := &vPeerLog{w: w, len: vChoose(tag+".len", 0, w), term: vWinNew(tag+".term", w, 64), typ: vWinNew(tag+".typ", w, 64),
		data: vWinNew(tag+".data", w, 64), tm0: vU64(tag + ".tm0"), commit: vU64(tag + ".commit")}
	base := vBase()
	prev := l.tm0
	for k := 1; k <= w; k++ {
		idx := base + uint64(k)
		// entry types a leader ever appends: Command, Noop, Barrier, Configuration is handled by dedicated harnesses
		t := l.typ.Get(idx)
		vAssume(vOr(t == uint64(LogCommand), t == uint64(LogNoop)))
		vAssume(vCanonBlobCell(l.data.Get(idx)))
		if k <= l.len {
			vAssume(l.term.Get(idx) >= prev) // terms never decrease along a log
			prev = l.term.Get(idx)
		}
	}
	vAssume(vImplies(base == 0, l.tm0 == 0))
	vAssume(l.commit <= base+uint64(l.len))
	return l
}

func (l *vPeerLog) lastTerm() uint64 {
	if l.len == 0 {
		return l.tm0
	}
	return l.term.Get(vBase() + uint64(l.len))
}

// termAt for offsets 0..len
func (l *vPeerLog) termAtOff(k int) uint64 {
	if k == 0 {
		return l.tm0
	}
	return l.term.Get(vBase() + uint64(k))
}

func (l *vPeerLog) entry(k int) *Log {
	idx := vBase() + uint64(k)
	return &Log{Index: idx, Term: l.term.Get(idx), Type: LogType(l.typ.Get(idx)), Data: vBlobFromCell(l.data.Get(idx))}
}

// F's entry at window offset k equals L's
func vSameAt(s *mLogStore, l *vPeerLog, k int) bool {
	idx := vBase() + uint64(k)
	return vAnd(s.term.Get(idx) == l.term.Get(idx), vAnd(s.typ.Get(idx) == l.typ.Get(idx), s.data.Get(idx) == l.data.Get(idx)))
}

// vInvLog: clauses R3/R4 of the representation invariant for a server whose
// log lives in the window [base+1, base+w] and whose snapshot index is in
// [base, base+w].
func vInvLog(r *Raft, env *vEnv, w int) bool {
	c := vInvLogClauses(r, env, w)
	ok := true
	for _, b := range c {
		ok = vAnd(ok, b)
	}
	return ok
}

var vInvLogNames = []string{"snap-in-window", "cache", "coverage-contiguous", "terms", "commit-le-last", "applied", "config-indexes"}

func vAssertInvLog(r *Raft, env *vEnv, w int, id string) {
	for i, b := range vInvLogClauses(r, env, w) {
		vAssert(b, id+"."+vInvLogNames[i])
	}
}

func vInvLogClauses(r *Raft, env *vEnv, w int) []bool {
	s := env.logs
	base := vBase()
	snap := r.lastSnapshotIndex
	c0 := vAnd(vAnd(snap >= base, snap <= base+uint64(w)), vImplies(snap == 0, r.lastSnapshotTerm == 0))
	empty := vAnd(s.low == 0, s.high == 0)
	// cached last log
	c1 := vImplies(!empty, vAnd(r.lastLogIndex == s.high, r.lastLogTerm == s.term.Get(s.high)))
	// with an empty store the cached position is harmless iff it does not lie above the snapshot
	// (getLastEntry then answers with the snapshot) or names the snapshot itself
	c1 = vAnd(c1, vImplies(empty, vOr(r.lastLogIndex < snap, vAnd(r.lastLogIndex == snap, r.lastLogTerm == r.lastSnapshotTerm))))
	// the log reaches down to the snapshot (coverage) and is contiguous
	// (entries at or below the snapshot index may have holes: a lagging follower that installed a snapshot keeps its
	// old tail below the snapshot and appends above it; gap-tolerant stores only)
	c2 := vImplies(!empty, vAnd(s.low <= snap+1, s.contiguous(vIte64(s.low > snap+1, s.low, snap+1), s.high)))
	// terms: non-decreasing, bounded by the current term, not below the snapshot's term above it
	c3 := true
	for k := 1; k <= w; k++ {
		idx := base + uint64(k)
		p := s.has(idx)
		c3 = vAnd(c3, vImplies(p, s.term.Get(idx) <= r.currentTerm))
		c3 = vAnd(c3, vImplies(vAnd(p, idx > snap), s.term.Get(idx) >= r.lastSnapshotTerm))
		c3 = vAnd(c3, vImplies(vAnd(p, idx == snap), s.term.Get(idx) == r.lastSnapshotTerm))
		if k > 1 {
			c3 = vAnd(c3, vImplies(vAnd(p, s.has(idx-1)), s.term.Get(idx-1) <= s.term.Get(idx)))
		}
		t := s.typ.Get(idx)
		c3 = vAnd(c3, vImplies(p, vOr(t == uint64(LogCommand), t == uint64(LogNoop))))
	}
	last := vIte64(r.lastLogIndex > snap, r.lastLogIndex, snap)
	c4 := r.commitIndex <= last
	c5 := vAnd(snap <= r.lastApplied, r.lastApplied <= vIte64(r.commitIndex > snap, r.commitIndex, snap))
	c6 := vAnd(r.configurations.committedIndex <= r.configurations.latestIndex, r.configurations.latestIndex <= last)
	return []bool{c0, c1, c2, c3, c4, c5, c6}
}

// agree(k): F and L are known to agree at offset k: F's entry there has L's
// term, or k is F's snapshot point and the snapshot term is L's term there.
func vAgree(r *Raft, s *mLogStore, l *vPeerLog, k int) bool {
	if k > l.len {
		return false
	}
	idx := vBase() + uint64(k)
	lt := l.termAtOff(k)
	a := vAnd(r.lastSnapshotIndex == idx, r.lastSnapshotTerm == lt)
	if k >= 1 {
		a = vOr(a, vAnd(s.has(idx), s.term.Get(idx) == lt))
	}
	return a
}

// LM(F,L) extended with the snapshot point: agreement at k implies identical
// entries at every retained j <= k.
func vLogMatching(r *Raft, s *mLogStore, l *vPeerLog, w int) bool {
	ok := true
	for k := 0; k <= w; k++ {
		for j := 1; j <= k && j <= l.len; j++ {
			idx := vBase() + uint64(j)
			ok = vAnd(ok, vImplies(vAnd(vAgree(r, s, l, k), s.has(idx)), vSameAt(s, l, j)))
		}
	}
	return ok
}

type vAEShape struct {
	prevOff, n int
}

// vBuildAE builds the request a leader with log L sends for prev = base+prevOff
// and n entries (weak WF: consistent with L; the strong form is C04.LEADER-BUILD).
func vBuildAE(l *vPeerLog, tag string, w int) (*AppendEntriesRequest, vAEShape) {
	prevOff := vChoose(tag+".prevOff", 0, l.len)
	maxN := l.len - prevOff
	if maxN > 2 {
		maxN = 2
	}
	n := vChoose(tag+".n", 0, maxN)
	a := &AppendEntriesRequest{
		RPCHeader:         RPCHeader{ProtocolVersion: ProtocolVersionMax, ID: vBlob(tag + ".id"), Addr: vBlob(tag + ".addr")},
		Term:              vU64(tag + ".term"),
		Leader:            vBlob(tag + ".leader"),
		PrevLogEntry:      vBase() + uint64(prevOff),
		PrevLogTerm:       l.termAtOff(prevOff),
		LeaderCommitIndex: vU64(tag + ".leaderCommit"),
	}
	for i := 1; i <= n; i++ {
		a.Entries = append(a.Entries, l.entry(prevOff+i))
	}
	vAssume(a.Term >= l.lastTerm()) // the leader of a.Term holds no entry of a later term
	vAssume(a.Term < 1<<62)
	vAssume(a.LeaderCommitIndex <= l.commit)
	return a, vAEShape{prevOff, n}
}

// vh_ae_term: term handling, step-down and leader hint of appendEntries
// (heartbeat-shaped request on a one-entry window).
func vh_ae_term() {
	w := 1
	r, env := vNewRaft("f", vRaftOpts{n: 1, w: w, shaped: true})
	vAssume(vInvBasic(r, env))
	vAssume(vInvLog(r, env, w))
	if vBool("transferCandidate") {
		r.candidateFromLeadershipTransfer.Store(true)
	}
	a := &AppendEntriesRequest{
		RPCHeader: RPCHeader{ProtocolVersion: ProtocolVersionMax, ID: vBlob("a.id"), Addr: vBlob("a.addr")},
		Term:      vU64("a.term"), Leader: vBlob("a.leader"),
		PrevLogEntry: vU64("a.prev"), PrevLogTerm: vU64("a.prevTerm"), LeaderCommitIndex: 0,
	}
	vAssume(a.Term < 1<<62)
	pre := vSnap(r, env)
	env.stable.failOn = true
	rpc, ch := vMakeRPC(a)
	panicked := vCatch(func() { r.appendEntries(rpc, a) })
	env.stable.failOn = false
	post := vSnap(r, env)
	if panicked {
		vCover("ae.term.panic-on-term-write")
		vAssert(post.stTerm == pre.stTerm && post.term == pre.term, "C06.ae.panic-term-unchanged")
		return
	}
	out := <-ch
	resp := out.Response.(*AppendEntriesResponse)
	if a.Term < pre.term {
		vCover("ae.stale-term")
		vAssert(!resp.Success, "C01.ae.stale-term-rejected")
		vAssert(vSameState(pre, post) && post.storeCalls == pre.storeCalls, "C01.ae.stale-term-frame")
		vAssert(!resp.Success, "C09.ae.no-ack-for-superseded-term")
		vAssert(resp.Term == pre.term, "C01.ae.stale-term-reports-own-term")
		vReach("ae.term.end")
		return
	}
	vAssert(post.term == a.Term && post.stTerm == a.Term, "C01.ae.term-adopted")
	vAssert(post.term >= pre.term, "C06.ae.term-mono")
	vAssert(vImplies(a.Term > pre.term, post.state == Follower), "C01.ae.stepdown-on-higher-term")
	// a leader or candidate of the same term that hears from a leader steps down (transfer candidates excepted)
	vAssert(vImplies(!pre.transfer, post.state == Follower), "C01.ae.stepdown-on-leader-contact")
	vAssert(vImplies(resp.Success, resp.Term == a.Term), "C09.ae.ack-carries-leader-term")
	vAssert(vImplies(resp.Success, a.Term >= pre.term), "C09.ae.ack-means-not-superseded")
	hint := a.Addr
	if len(a.Addr) == 0 {
		vCover("ae.term.legacy-leader-field")
		hint = a.Leader
	}
	vAssert(post.leaderAddr == ServerAddress(hint) && post.leaderID == ServerID(a.ID), "C18.ae.leader-hint-from-request")
	vAssert(post.stVoteTerm == pre.stVoteTerm && vSameBlob(post.stVoteCand, pre.stVoteCand), "C06.ae.vote-record-untouched")
	vAssert(vInvBasic(r, env), "C06.ae.inv-R1R2")
	if resp.Success {
		vCover("ae.term.success")
	}
	vReach("ae.term.end")
}

// vh_ae_log: the log half of appendEntries. Term handling is fixed to the
// common case (request of the follower's current term, follower state), which
// vh_ae_term covers separately.
func vh_ae_log() {
	w := 2 + vTier()
	r, env := vNewRaft("f", vRaftOpts{n: 1, w: w, shaped: true})
	s := env.logs
	l := vNewPeerLog("L", w)
	base := vBase()
	// concrete positions for commit / applied (symbolic base)
	snapOff := 0
	for k := 0; k <= w; k++ {
		if r.lastSnapshotIndex == base+uint64(k) {
			snapOff = k
		}
	}
	lastOff := snapOff
	for k := 0; k <= w; k++ {
		if r.lastLogIndex == base+uint64(k) && k > lastOff {
			lastOff = k
		}
	}
	if vChoose("f.commitZero", 0, 1) == 1 {
		r.commitIndex = 0 // volatile: restarts at 0
	} else {
		r.commitIndex = base + uint64(vChoose("f.commitOff", 0, lastOff))
	}
	r.lastApplied = base + uint64(vChoose("f.appliedOff", snapOff, w))
	vAssume(vInvBasic(r, env))
	vAssume(vInvLog(r, env, w))
	vAssume(vLogMatching(r, s, l, w))
	vAssume(r.state == Follower)
	a, sh := vBuildAE(l, "a", w)
	vAssume(a.Term == r.currentTerm)
	vAssume(len(a.Addr) > 0)
	if vChoose("a.lcZero", 0, 1) == 1 {
		a.LeaderCommitIndex = 0
	} else {
		a.LeaderCommitIndex = base + uint64(vChoose("a.lcOff", 0, l.len))
	}
	vAssume(a.LeaderCommitIndex <= l.commit)
	// LC(L,F): what F knows to be committed is in the sender's log, identical (leader completeness, C03)
	for k := 1; k <= w; k++ {
		idx := base + uint64(k)
		vAssume(vImplies(vAnd(idx <= r.commitIndex, s.has(idx)), vAnd(k <= l.len, vSameAt(s, l, k))))
		vAssume(vImplies(vAnd(idx <= r.lastApplied, s.has(idx)), vAnd(k <= l.len, vSameAt(s, l, k))))
		// the configuration F holds as committed was committed on a leader's authority (C07.COMMIT-CONFIG)
		vAssume(vImplies(vAnd(idx <= r.configurations.committedIndex, s.has(idx)), vAnd(k <= l.len, vSameAt(s, l, k))))
	}
	vAssume(vImplies(r.commitIndex > base, r.commitIndex <= base+uint64(l.len)))
	vAssume(r.lastApplied <= base+uint64(l.len))
	// LC for the snapshot point: F's snapshot is committed state, so the sender's log covers it with the same term
	vAssume(r.lastSnapshotIndex <= base+uint64(l.len))
	for k := 0; k <= l.len; k++ {
		vAssume(vImplies(r.lastSnapshotIndex == base+uint64(k), l.termAtOff(k) == r.lastSnapshotTerm))
	}
	// NI: beyond the batch F holds nothing that disagrees with L at or below the leader's commit index
	// (guaranteed by the leader's highest-match walk; the catch-up session decides it)
	for k := sh.prevOff + sh.n + 1; k <= w; k++ {
		idx := base + uint64(k)
		vAssume(vImplies(vAnd(s.has(idx), idx <= a.LeaderCommitIndex), vAnd(k <= l.len, vSameAt(s, l, k))))
	}
	// batches handed to the FSM hold at most MaxAppendEntries tuples: with 1 every entry is its own batch
	// (a reused batch slice would then be overwritten before the FSM goroutine consumed it)
	cfgv := r.conf.Load().(Config)
	variant := vChoose("variant", 0, 1+2*vTier()) // quick: {maxAE=1, plain store} and {maxAE=2, commit-tracking store}; thorough: all four
	cfgv.MaxAppendEntries = 1 + variant%2
	r.conf.Store(cfgv)
	var cstore *mCommitLogStore
	if variant == 1 || variant == 2 {
		cstore = &mCommitLogStore{mLogStore: s, staged: r.commitIndex}
		r.logs = cstore
		r.RestoreCommittedLogs = true
	}
	pre := vSnap(r, env)
	preStore := s.clone()
	preLastIdx, _ := r.getLastLog()
	rpc, ch := vMakeRPC(a)
	panicked := vCatch(func() { r.appendEntries(rpc, a) })
	if cstore != nil {
		// the durably staged commit index never exceeds what the leader reported committed nor what was committed before
		vAssert(vOr(cstore.staged <= a.LeaderCommitIndex, cstore.staged <= pre.commit), "C05.ae.staged-commit-index-is-committed")
		vAssert(vOr(cstore.staged <= a.LeaderCommitIndex, cstore.staged <= pre.commit), "C10.ae.staged-commit-index-is-committed")
	}
	vAssert(!panicked, "C02.ae.no-panic")
	vAssert(!panicked, "C04.ae.no-panic")
	vAssert(!panicked, "C05.ae.no-panic")
	if panicked {
		return
	}
	out := <-ch
	resp := out.Response.(*AppendEntriesResponse)
	post := vSnap(r, env)
	last := base + uint64(sh.prevOff+sh.n)

	// deletions: only a suffix starting at the first conflict
	deleted := false
	var delFrom, delTo uint64
	nStore := 0
	for _, c := range s.calls {
		if c.op == opDeleteRange {
			vAssert(!deleted, "C04.ae.single-truncation")
			deleted, delFrom, delTo = true, c.a, c.b
		}
		if c.op == opStoreLogs && c.ok {
			nStore++
		}
	}
	if deleted {
		vCover("ae.truncated")
		vAssert(delTo == preLastIdx, "C04.ae.trunc-to-last")
		vAssert(delFrom > base+uint64(sh.prevOff) && delFrom <= last, "C04.ae.trunc-inside-batch")
		vAssert(preStore.has(delFrom) && preStore.term.Get(delFrom) != l.term.Get(delFrom), "C04.ae.trunc-at-conflict")
		for k := sh.prevOff + 1; k <= sh.prevOff+sh.n; k++ {
			idx := base + uint64(k)
			vAssert(vImplies(idx < delFrom, vAnd(preStore.has(idx), preStore.term.Get(idx) == l.term.Get(idx))), "C04.ae.trunc-first-conflict")
		}
		vAssert(delFrom > pre.commit, "C03.ae.no-trunc-committed")
		vAssert(delFrom > pre.snapIdx, "C03.ae.no-trunc-below-snapshot")
		vAssert(delFrom > pre.applied, "C02.ae.no-trunc-applied")
	}
	if resp.Success {
		vCover("ae.success")
		if sh.n > 0 {
			vCover("ae.success-with-entries")
		}
		// log equals the leader's through the last entry sent
		for k := 1; k <= sh.prevOff+sh.n; k++ {
			idx := base + uint64(k)
			vAssert(vImplies(s.has(idx), vSameAt(s, l, k)), "C04.ae.match")
			if k > sh.prevOff {
				vAssert(vOr(s.has(idx), idx <= post.snapIdx), "C04.ae.batch-retained")
			}
		}
		vAssertInvLog(r, env, w, "C04.ae.inv-log")
		nl, _ := r.getLastLog()
		vAssert(vOr(s.high == 0, nl == s.high), "C03.ae.last-log-never-rewinds-below-store")
		vAssert(vLogMatching(r, s, l, w), "C04.ae.lm-preserved")
		// commit index rule
		lastIdx := r.getLastIndex()
		want := pre.commit
		if a.LeaderCommitIndex > pre.commit {
			want = vIte64(a.LeaderCommitIndex < lastIdx, a.LeaderCommitIndex, lastIdx)
		}
		vAssert(post.commit == want, "C05.ae.follower-commit-rule")
	} else {
		vCover("ae.rejected")
		vAssert(post.commit == pre.commit && post.applied == pre.applied, "C05.ae.reject-no-commit")
		vAssert(nStore == 0, "C04.ae.reject-no-append")
		// a rejection leaves the log alone unless a genuinely conflicting suffix was cut
		vAssert(vImplies(!deleted, vAnd(s.low == preStore.low, s.high == preStore.high)), "C04.ae.reject-frame")
	}
	vAssert(post.commit >= pre.commit, "C05.ae.commit-mono")
	vAssert(post.commit <= r.getLastIndex(), "C05.ae.commit-le-last")
	vAssert(post.applied >= pre.applied, "C02.ae.applied-mono")
	// entries handed to the FSM: the Command entries of pre.applied+1 .. post.applied, in order, each equal to the agreed entry
	expect := pre.applied + 1
	for len(r.fsmMutateCh) > 0 {
		b := (<-r.fsmMutateCh).([]*commitTuple)
		vAssert(len(b) >= 1 && len(b) <= r.config().MaxAppendEntries, "C02.ae.batch-size-bounded")
		for _, ct := range b {
			vCover("ae.fed-fsm")
			vAssert(ct.log.Index >= expect && ct.log.Index <= post.applied, "C02.ae.feed-order")
			vAssert(ct.log.Index <= a.LeaderCommitIndex, "C02.ae.feed-only-committed")
			okSkip, okSame := true, false
			for k := 1; k <= w; k++ {
				idx := base + uint64(k)
				// everything skipped between the previous fed entry and this one is a Noop
				okSkip = vAnd(okSkip, vImplies(vAnd(idx >= expect, idx < ct.log.Index), s.typ.Get(idx) == uint64(LogNoop)))
				if k <= l.len {
					okSame = vOr(okSame, vAnd(ct.log.Index == idx, vAnd(ct.log.Term == l.term.Get(idx), vAnd(uint64(ct.log.Type) == l.typ.Get(idx), vBlobToCell(ct.log.Data) == l.data.Get(idx)))))
				}
			}
			vAssert(okSkip, "C02.ae.skipped-only-noop")
			vAssert(okSame, "C02.ae.feed-equals-agreed")
			vAssert(ct.future == nil, "C02.ae.feed-no-future")
			expect = ct.log.Index + 1
		}
	}
	okTail := true
	for k := 1; k <= w; k++ {
		idx := base + uint64(k)
		okTail = vAnd(okTail, vImplies(vAnd(idx >= expect, idx <= post.applied), s.typ.Get(idx) == uint64(LogNoop)))
	}
	vAssert(okTail, "C02.ae.none-skipped")
	vReach("ae.end")
}
