//go:build verif

package raft

import (
	"io"
	"time"

	hclog "github.com/hashicorp/go-hclog"
)

// ---- transport model ----

type mTrans struct {
	// hooks installed by SESSION harnesses: the RPC is delivered to a real
	// handler of a second object; nil means "symbolic response".
	onAppend   func(id ServerID, a *AppendEntriesRequest, resp *AppendEntriesResponse) error
	onVote     func(id ServerID, a *RequestVoteRequest, resp *RequestVoteResponse) error
	onPreVote  func(id ServerID, a *RequestPreVoteRequest, resp *RequestPreVoteResponse) error
	onSnapshot func(id ServerID, a *InstallSnapshotRequest, resp *InstallSnapshotResponse, data io.Reader) error
	consumer   chan RPC
	local      ServerAddress
	sentVotes  []ServerID
	sentPre    []ServerID
	timeoutNowTo    []ServerID
	timeoutNowFails bool
	lastTarget      ServerAddress // address the last AppendEntries/InstallSnapshot was sent to
}

func (t *mTrans) Consumer() <-chan RPC     { return t.consumer }
func (t *mTrans) LocalAddr() ServerAddress { return t.local }
func (t *mTrans) AppendEntriesPipeline(id ServerID, target ServerAddress) (AppendPipeline, error) {
	return nil, ErrPipelineReplicationNotSupported
}
func (t *mTrans) AppendEntries(id ServerID, target ServerAddress, args *AppendEntriesRequest, resp *AppendEntriesResponse) error {
	t.lastTarget = target
	if t.onAppend != nil {
		return t.onAppend(id, args, resp)
	}
	panic("mTrans.AppendEntries: no handler")
}
func (t *mTrans) RequestVote(id ServerID, target ServerAddress, args *RequestVoteRequest, resp *RequestVoteResponse) error {
	t.sentVotes = append(t.sentVotes, id)
	if t.onVote != nil {
		return t.onVote(id, args, resp)
	}
	panic("mTrans.RequestVote: no handler")
}
func (t *mTrans) RequestPreVote(id ServerID, target ServerAddress, args *RequestPreVoteRequest, resp *RequestPreVoteResponse) error {
	t.sentPre = append(t.sentPre, id)
	if t.onPreVote != nil {
		return t.onPreVote(id, args, resp)
	}
	panic("mTrans.RequestPreVote: no handler")
}
func (t *mTrans) InstallSnapshot(id ServerID, target ServerAddress, args *InstallSnapshotRequest, resp *InstallSnapshotResponse, data io.Reader) error {
	t.lastTarget = target
	if t.onSnapshot != nil {
		return t.onSnapshot(id, args, resp, data)
	}
	panic("mTrans.InstallSnapshot: no handler")
}
func (t *mTrans) EncodePeer(id ServerID, addr ServerAddress) []byte { return []byte(addr) }
func (t *mTrans) DecodePeer(b []byte) ServerAddress                { return ServerAddress(b) }
func (t *mTrans) SetHeartbeatHandler(cb func(rpc RPC))             {}
func (t *mTrans) TimeoutNow(id ServerID, target ServerAddress, args *TimeoutNowRequest, resp *TimeoutNowResponse) error {
	t.timeoutNowTo = append(t.timeoutNowTo, id)
	if t.timeoutNowFails {
		return errInjected
	}
	return nil
}

// ---- the symbolic server ----

type vEnv struct {
	logs   *mLogStore
	stable *mStable
	trans  *mTrans
	fsm    *mFSM
	snaps  *mSnapStore
}

type vRaftOpts struct {
	n       int  // servers in latest configuration (0 = empty configuration)
	w       int  // log window
	leader  bool // build leader state
	anyPV   bool // protocol version symbolic in 2..3 (else 3)
	mono    bool // monotonic log store
	monoShim bool // the store implements MonotonicLogStore but answers IsMonotonic() == false (as LogCache over a plain store)
	shaped  bool // concrete log/snapshot shape relative to the base (case split), symbolic content
	splitCommitted bool // the committed configuration has its own symbolic suffrages (a change may be in flight)
	commitTracking bool
}

func vDefaultConfig(id ServerID) Config {
	return Config{
		ProtocolVersion:    ProtocolVersionMax,
		HeartbeatTimeout:   1000 * time.Millisecond,
		ElectionTimeout:    1000 * time.Millisecond,
		CommitTimeout:      50 * time.Millisecond,
		MaxAppendEntries:   2,
		BatchApplyCh:       false,
		ShutdownOnRemove:   true,
		TrailingLogs:       10240,
		SnapshotInterval:   120 * time.Second,
		SnapshotThreshold:  8192,
		LeaderLeaseTimeout: 500 * time.Millisecond,
		LocalID:            id,
	}
}

// vNewRaft builds a *Raft directly (skipping NewRaft) whose protocol fields
// are symbolic. The caller constrains it with vInvR.
func vNewRaft(tag string, o vRaftOpts) (*Raft, *vEnv) {
	env := &vEnv{}
	if o.w > 0 && o.shaped {
		env.logs = vNewLogStoreShaped(tag+".log", o.w)
	} else if o.w > 0 {
		env.logs = vNewLogStore(tag+".log", o.w)
	} else {
		env.logs = vEmptyLogStore(tag+".log", 1)
	}
	env.stable = &mStable{term: vU64(tag + ".st.term"), voteTerm: vU64(tag + ".st.voteTerm"), voteCand: vBlob(tag + ".st.voteCand")}
	env.trans = &mTrans{consumer: make(chan RPC, 1)}
	env.fsm = &mFSM{}
	env.snaps = &mSnapStore{}
	r := &Raft{
		protocolVersion:       ProtocolVersionMax,
		applyCh:               make(chan *logFuture, 4),
		fsm:                   env.fsm,
		fsmMutateCh:           make(chan interface{}, 8),
		fsmSnapshotCh:         make(chan *reqSnapshotFuture),
		leaderCh:              make(chan bool, 1),
		stable:                env.stable,
		snapshots:             env.snaps,
		trans:                 env.trans,
		userSnapshotCh:        make(chan *userSnapshotFuture),
		userRestoreCh:         make(chan *userRestoreFuture),
		shutdownCh:            make(chan struct{}),
		verifyCh:              make(chan *verifyFuture, 2),
		configurationsCh:      make(chan *configurationsFuture, 2),
		bootstrapCh:           make(chan *bootstrapFuture),
		configurationChangeCh: make(chan *configurationChangeFuture),
		leadershipTransferCh:  make(chan *leadershipTransferFuture, 1),
		leaderNotifyCh:        make(chan struct{}, 1),
		followerNotifyCh:      make(chan struct{}, 1),
		rpcCh:                 env.trans.consumer,
		logger:                hclog.NewNullLogger(), // the engine stubs every Logger method; natively a null logger
		mainThreadSaturation:  newSaturationMetric([]string{"raft", "thread", "main", "saturation"}, 1*time.Second),
	}
	if o.mono {
		r.logs = mMonoLogStore{mLogStore: env.logs}
	} else if o.monoShim {
		r.logs = mMonoLogStore{mLogStore: env.logs, notMonotonic: true}
	} else {
		r.logs = env.logs
	}
	r.localID = ServerID(vStr(tag + ".localID"))
	r.localAddr = ServerAddress(vStr(tag + ".localAddr"))
	vAssume(r.localID != "")
	vAssume(r.localAddr != "")
	env.trans.local = r.localAddr
	cfg := vDefaultConfig(r.localID)
	if o.anyPV {
		pv := ProtocolVersion(vChoose(tag+".pv", 2, 3))
		cfg.ProtocolVersion = pv
		r.protocolVersion = pv
	}
	r.conf.Store(cfg)
	r.currentTerm = vU64(tag + ".currentTerm")
	r.commitIndex = vU64(tag + ".commitIndex")
	r.lastApplied = vU64(tag + ".lastApplied")
	r.lastSnapshotIndex = vU64(tag + ".lastSnapshotIndex")
	r.lastSnapshotTerm = vU64(tag + ".lastSnapshotTerm")
	r.lastLogIndex = vU64(tag + ".lastLogIndex")
	r.lastLogTerm = vU64(tag + ".lastLogTerm")
	if o.shaped {
		// snapshot index inside [base, base+w]; the cached last log is what NewRaft/appendEntries maintain
		r.lastSnapshotIndex = vBase() + uint64(vChoose(tag+".snapOff", 0, o.w))
		if env.logs.high != 0 {
			r.lastLogIndex = env.logs.high
			r.lastLogTerm = env.logs.term.Get(env.logs.high)
		} else if vChoose(tag+".emptyLogCache", 0, 1) == 0 {
			r.lastLogIndex, r.lastLogTerm = 0, 0
		} else {
			r.lastLogIndex, r.lastLogTerm = r.lastSnapshotIndex, r.lastSnapshotTerm
		}
	}
	r.state = RaftState(vU32(tag + ".state"))
	vAssume(r.state <= Leader)
	r.leaderAddr = ServerAddress(vStr(tag + ".leaderAddr"))
	r.leaderID = ServerID(vStr(tag + ".leaderID"))
	if o.n > 0 {
		r.configurations.latest = vConfig(tag+".latest", o.n, false)
		vAssume(vCountVoters(r.configurations.latest) >= 1)
	}
	r.configurations.latestIndex = vU64(tag + ".latestIndex")
	r.configurations.committed = r.configurations.latest.Clone()
	r.configurations.committedIndex = r.configurations.latestIndex
	if o.splitCommitted && o.n > 0 {
		// same members, independently symbolic suffrages: code that consults `committed` where it should
		// consult `latest` (or vice versa) becomes visible
		for i := range r.configurations.committed.Servers {
			sf := ServerSuffrage(vInt(tag + ".committed.suf"))
			vAssume(sf >= 0)
			vAssume(sf <= 2)
			r.configurations.committed.Servers[i].Suffrage = sf
		}
		r.configurations.committedIndex = vU64(tag + ".committedIndex")
		vAssume(r.configurations.committedIndex <= r.configurations.latestIndex)
	}
	r.latestConfiguration.Store(r.configurations.latest.Clone())
	return r, env
}

// vInvBasic: the part of the representation invariant R (DESIGN 3.1) that the
// vote/term handlers rely on: R1, R2 and sane magnitudes (< 2^62 so +1 never wraps).
func vInvBasic(r *Raft, env *vEnv) bool {
	const lim = uint64(1) << 62
	ok := vAnd(env.stable.term == r.currentTerm, env.stable.voteTerm <= r.currentTerm)
	ok = vAnd(ok, vAnd(r.currentTerm < lim, vAnd(r.lastLogIndex < lim, r.lastSnapshotIndex < lim)))
	ok = vAnd(ok, vAnd(r.lastLogTerm <= r.currentTerm, r.lastSnapshotTerm <= r.currentTerm))
	ok = vAnd(ok, vAnd(r.commitIndex < lim, r.lastApplied < lim))
	return ok
}

// snapshot of everything a handler could change (protocol fields + durable record)
type vState struct {
	term, commit, applied, snapIdx, snapTerm, logIdx, logTerm uint64
	state                                                     RaftState
	leaderAddr                                                ServerAddress
	leaderID                                                  ServerID
	stTerm, stVoteTerm                                        uint64
	stVoteCand                                                []byte
	latestIndex, committedIndex                               uint64
	latest, committed                                         []Server
	logLow, logHigh                                           uint64
	storeCalls, stableCalls                                   int
	transfer                                                  bool
}

func vSnap(r *Raft, env *vEnv) vState {
	return vState{
		term: r.currentTerm, commit: r.commitIndex, applied: r.lastApplied,
		snapIdx: r.lastSnapshotIndex, snapTerm: r.lastSnapshotTerm, logIdx: r.lastLogIndex, logTerm: r.lastLogTerm,
		state: r.state, leaderAddr: r.leaderAddr, leaderID: r.leaderID,
		stTerm: env.stable.term, stVoteTerm: env.stable.voteTerm, stVoteCand: env.stable.voteCand,
		latestIndex: r.configurations.latestIndex, committedIndex: r.configurations.committedIndex,
		latest: append([]Server(nil), r.configurations.latest.Servers...), committed: append([]Server(nil), r.configurations.committed.Servers...),
		logLow: env.logs.low, logHigh: env.logs.high, storeCalls: len(env.logs.calls), stableCalls: len(env.stable.calls),
		transfer: r.candidateFromLeadershipTransfer.Load(),
	}
}

func vSameBlob(a, b []byte) bool { return vAnd(vBlobEq(a, b), vBlobIsNil(a) == vBlobIsNil(b)) }

// vSameState: nothing changed (FRAME obligations). Store contents are covered
// by the call logs: no mutating store call happened.
func vSameState(a, b vState) bool {
	ok := vAnd(a.term == b.term, vAnd(a.commit == b.commit, a.applied == b.applied))
	ok = vAnd(ok, vAnd(a.snapIdx == b.snapIdx, vAnd(a.snapTerm == b.snapTerm, vAnd(a.logIdx == b.logIdx, a.logTerm == b.logTerm))))
	ok = vAnd(ok, vAnd(a.state == b.state, vAnd(a.leaderAddr == b.leaderAddr, a.leaderID == b.leaderID)))
	ok = vAnd(ok, vAnd(a.stTerm == b.stTerm, vAnd(a.stVoteTerm == b.stVoteTerm, vSameBlob(a.stVoteCand, b.stVoteCand))))
	ok = vAnd(ok, vAnd(a.latestIndex == b.latestIndex, a.committedIndex == b.committedIndex))
	ok = vAnd(ok, vAnd(vSameServers(a.latest, b.latest), vSameServers(a.committed, b.committed)))
	ok = vAnd(ok, vAnd(a.logLow == b.logLow, a.logHigh == b.logHigh))
	ok = vAnd(ok, a.transfer == b.transfer)
	return ok
}

// vCallRPC runs a handler that answers through rpc.Respond and returns the response.
func vMakeRPC(cmd interface{}) (RPC, chan RPCResponse) {
	ch := make(chan RPCResponse, 1)
	return RPC{Command: cmd, RespChan: ch}, ch
}

// ---- FSM / snapshot store models (filled in further in m_fsm.go) ----
