//go:build verif

package raft

// C19: LogCache is transparent. The reference for "what the wrapped store
// alone would return" is the wrapped store itself, read directly: LogCache
// forwards every write unchanged (checked on the backend's call log), so after
// any history the backend IS the store-alone state.

func vSameLog(a, b *Log) bool {
	return vAnd(vAnd(a.Index == b.Index, a.Term == b.Term), vAnd(a.Type == b.Type,
		vAnd(vBlobEq(a.Data, b.Data), vBlobEq(a.Extensions, b.Extensions))))
}

// vCacheInv: every occupied slot mirrors the backend entry at its index.
func vCacheInv(c *LogCache, s *mLogStore) bool {
	ok := true
	for slot, l := range c.cache {
		if l != nil {
			ok = vAnd(ok, l.Index%uint64(len(c.cache)) == uint64(slot))
			var b Log
			b.Index = l.Index
			b.Term = s.term.Get(l.Index)
			b.Type = LogType(s.typ.Get(l.Index))
			b.Data = vBlobFromCell(s.data.Get(l.Index))
			b.Extensions = vBlobFromCell(s.ext.Get(l.Index))
			ok = vAnd(ok, vAnd(s.has(l.Index), vSameLog(l, &b)))
		}
	}
	return ok
}

// vArbLogAt: arbitrary content at a window position chosen by case split
// (concrete shape, symbolic content: the slot arithmetic idx%cap then folds).
func vArbLogAt(tag string, w int) *Log {
	l := vArbLog(tag)
	l.Index = vBase() + uint64(vChoose(tag+".off", 1, w))
	return l
}

func vArbLog(tag string) *Log {
	return &Log{Index: vU64(tag + ".index"), Term: vU64(tag + ".term"), Type: LogType(vU8(tag + ".type")),
		Data: vBlob(tag + ".data"), Extensions: vBlob(tag + ".ext")}
}

// read idx through the cache and directly; results must agree
func vCheckRead(c *LogCache, s *mLogStore, idx uint64, id string) {
	var viaCache, direct Log
	e1 := c.GetLog(idx, &viaCache)
	e2 := s.GetLog(idx, &direct)
	vAssert((e1 == nil) == (e2 == nil), id+".err")
	if e1 == nil && e2 == nil {
		vCover("C19.read.hit-or-forward")
		vAssert(vSameLog(&viaCache, &direct), id+".entry")
	}
	if e1 != nil {
		vAssert(e1 == e2, id+".same-error")
	}
}

var narrowDelete bool

func vCacheOp(c *LogCache, s *mLogStore, tag string) {
	before := len(s.calls)
	switch vChoose(tag+".op", 0, 3) {
	case 0: // StoreLogs of 1..2 arbitrary logs (any order, any index in the window)
		n := vChoose(tag+".batch", 1, 2)
		var logs []*Log
		for i := 0; i < n; i++ {
			l := vArbLogAt(tag+".log", s.w)
			logs = append(logs, l)
		}
		err := c.StoreLogs(logs)
		vAssert(len(s.calls) == before+1 && s.calls[before].op == opStoreLogs, "C19.passthrough.storelogs")
		vAssert((err == nil) == s.calls[before].ok, "C19.passthrough.storelogs-result")
		if err != nil {
			vCover("C19.store.backend-error")
		}
	case 1: // StoreLog
		l := vArbLogAt(tag+".log", s.w)
		err := c.StoreLog(l)
		vAssert(len(s.calls) == before+1 && s.calls[before].op == opStoreLogs && s.calls[before].a == l.Index, "C19.passthrough.storelog")
		vAssert((err == nil) == s.calls[before].ok, "C19.passthrough.storelog-result")
	case 2: // DeleteRange: bounds at window positions (so that any slot arithmetic on them folds), or the extremes 0 / MaxUint64
		min, max := uint64(0), ^uint64(0)
		lo, hi := -1, s.w+1
		if narrowDelete {
			lo, hi = 0, s.w // the bounded-sequence harness keeps the fan-out small; the inductive one explores all bounds
		}
		if k := vChoose(tag+".minOff", lo, hi); k >= 0 {
			min = vBase() + uint64(k)
		}
		if k := vChoose(tag+".maxOff", -1, hi); k >= 0 {
			max = vBase() + uint64(k)
		}
		err := c.DeleteRange(min, max)
		vAssert(len(s.calls) == before+1 && s.calls[before].op == opDeleteRange && s.calls[before].a == min && s.calls[before].b == max, "C19.passthrough.delete")
		vAssert((err == nil) == s.calls[before].ok, "C19.passthrough.delete-result")
		if err != nil {
			vCover("C19.delete.backend-error")
		}
	case 3: // FirstIndex / LastIndex
		f, e1 := c.FirstIndex()
		l, e2 := c.LastIndex()
		vAssert(len(s.calls) == before+2 && s.calls[before].op == opFirstIndex && s.calls[before+1].op == opLastIndex, "C19.passthrough.first-last")
		vAssert((e1 == nil) == s.calls[before].ok && (e2 == nil) == s.calls[before+1].ok, "C19.passthrough.first-last-result")
		if e1 == nil {
			vAssert(f == s.low, "C19.passthrough.first-value")
		}
		if e2 == nil {
			vAssert(l == s.high, "C19.passthrough.last-value")
		}
	}
}

// C19.INDUCTIVE: from an arbitrary (cache, backend) pair satisfying the cache
// invariant, one arbitrary operation preserves the invariant and every read
// through the cache equals the direct read. Lifts the claim to sequences of
// any length (within the window and capacity bound).
func vh_C19_inductive() {
	narrowDelete = false
	vBaseAlign12()
	w := 3
	capacity := vChoose("cap", 1, 3+vTier())
	s := vNewLogStore("be", w)
	c, err := NewLogCache(capacity, s)
	vAssert(err == nil && c != nil, "C19.new.ok")
	for i := 0; i < capacity; i++ {
		if vChoose("slot", 0, 1) == 1 {
			c.cache[i] = vArbLogAt("cached", w)
		}
	}
	vAssume(vCacheInv(c, s))
	s.failOn = true
	s.partialDelete = true // a failing backend DeleteRange may have removed part of the range
	vCacheOp(c, s, "op")
	s.failOn = false
	vAssert(vCacheInv(c, s), "C19.inductive.invariant")
	vCheckRead(c, s, vBase()+uint64(vChoose("probe", 0, w+2)), "C19.inductive.read")
	vReach("C19.inductive.end")
}

// C19.DIFF: NewLogCache on an arbitrary backend followed by a short arbitrary
// operation sequence; after every operation an arbitrary read agrees.
func vh_C19_diff() {
	narrowDelete = true
	vBaseAlign12()
	w := 2
	capacity := vChoose("cap", 1, 3)
	s := vNewLogStore("be", w)
	c, _ := NewLogCache(capacity, s)
	steps := 2 + vTier()
	for i := 0; i < steps; i++ {
		s.failOn = true
		vCacheOp(c, s, "op")
		s.failOn = false
	}
	vCheckRead(c, s, vBase()+uint64(vChoose("probe", 0, w+1)), "C19.diff.read")
	vAssert(vCacheInv(c, s), "C19.diff.invariant")
	vReach("C19.diff.end")
}

// C19.NEW: the constructor refuses non-positive capacities.
func vh_C19_new() {
	capacity := vInt("cap")
	vAssume(capacity <= 4)
	s := vEmptyLogStore("be", 1)
	if capacity > 0 {
		// concrete sizes only: make([]*Log, capacity)
		capacity = vChoose("capc", 1, 4)
	}
	c, err := NewLogCache(capacity, s)
	if capacity <= 0 {
		vCover("C19.new.refused")
		vAssert(err != nil && c == nil, "C19.new.refuse-nonpositive")
	} else {
		vAssert(err == nil && len(c.cache) == capacity, "C19.new.capacity")
		for _, l := range c.cache {
			vAssert(l == nil, "C19.new.empty")
		}
	}
	vReach("C19.new.end")
}
