#!/usr/bin/env python3
"""Regenerates MANIFEST.json from checks.py (claimed properties) and NA (not claimed)."""
import json, os, sys
sys.path.insert(0, os.path.dirname(os.path.abspath(__file__)))
from checks import CHECKS
from manifest_text import LEVELS, NA

props = [json.loads(l)["id"] for l in open("/verif/properties.jsonl")]
checks = []
for pid in props:
    if pid not in CHECKS or pid not in LEVELS:
        continue
    lv = LEVELS[pid]
    checks.append({
        "property_id": pid,
        "quick_cmd": "./check %s --tier quick" % pid,
        "thorough_cmd": "./check %s --tier thorough" % pid,
        "evidence_file": "/verif/evidence/%s.json" % pid,
        "replay_cmd_template": "./check replay {path}",
        "engine": "gosym",
        "level_claimed": {"category": "other", "text": lv["text"], "design_ref": lv["ref"]},
        "level_note": lv["note"],
        "technique": "symbolic execution of go/ssa (own engine) + SMT (z3), bounded; counterexamples replayed natively",
    })
claimed = set(c["property_id"] for c in checks)
na = [{"property_id": p, "reason": NA.get(p, "check not yet built; see DESIGN.md")} for p in props if p not in claimed]
m = {
    "version": 1,
    "setup_cmd": "cd /verif/engine && GOFLAGS=-mod=mod GOPROXY=off go build -o /verif/bin/gosym ./cmd/gosym",
    "hooks": {"guard": "verif", "enable": "no hooks in /repo: harness files (/verif/harness/*.go, //go:build verif) are injected into package raft through a go/packages overlay on every run",
              "baseline_off_cmd": "cd /repo && go test -vet=off -count=1 -timeout 25m ./...", "source_commits": [], "add_only": True},
    "engines": [{"name": "gosym", "path": "/verif/engine", "serves_properties": sorted(claimed),
                 "kind_free_text": "path-forking symbolic executor for go/ssa written for this task; z3 -in per worker; cross-checks with z3 5.1 and cvc5"}],
    "checks": checks,
    "notes": "Every claimed check is bounded symbolic verification of the real code regenerated from /repo on each run; see DESIGN.md. Exit 2 = inconclusive (never success).",
    "not_applicable": na,
}
json.dump(m, open("/verif/MANIFEST.json", "w"), indent=1)
print("claimed:", sorted(claimed))
