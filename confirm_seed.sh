#!/bin/bash
# usage: confirm_seed.sh <property-id> <seed-dir>   -- confirms a seeded change in a scratch worktree and records the result
id=$1; src=$2
wt=/tmp/confirm_$id
export GOFLAGS=-mod=mod GOPROXY=off
rm -rf $wt; git -C /repo worktree prune; git -C /repo worktree add -q --detach $wt HEAD || exit 1
out=/verif/seeded/$id; mkdir -p $out
cp $src/patch.diff $out/patch.diff; cp $src/demo_test.go $out/demo_test.go; [ -f $src/notes.md ] && cp $src/notes.md $out/notes.md
cd $wt
cp $src/demo_test.go $wt/zz_seed_${id}_test.go
tname=$(grep -o 'func Test[A-Za-z0-9_]*' $wt/zz_seed_${id}_test.go | head -1 | sed 's/func //')
go test -vet=off -count=1 -run "^${tname}\$" . > $out/demo_without.log 2>&1; without=$?
git apply $src/patch.diff || { echo "patch does not apply" > $out/confirm.txt; exit 1; }
go build ./... > $out/build.log 2>&1; build=$?
go test -vet=off -count=1 -run "^${tname}\$" . > $out/demo_with.log 2>&1; with=$?
rm $wt/zz_seed_${id}_test.go
go test -vet=off -count=1 -timeout 25m . > $out/suite_with.log 2>&1
fails=$(grep -E "^--- FAIL" $out/suite_with.log | awk '{print $3}' | sort -u | tr '\n' ' ')
# a failure that passes when re-run alone (with the change still applied) is a load flake
real=""
for t in $fails; do
  case $t in TestFileSS_BadPerm|TestRaft_FollowerRemovalNoElection|TestRaft_ProtocolVersion_Upgrade_1_2) continue;; esac
  ok=0
  for k in 1 2 3; do
    if go test -vet=off -count=1 -run "^${t}\$" . >> $out/suite_rerun.log 2>&1; then ok=1; break; fi
  done
  [ $ok -eq 0 ] && real="$real $t"
done
fails="$fails|$real"
cd /; git -C /repo worktree remove --force $wt
python3 - "$id" "$tname" "$without" "$with" "$build" "$fails" <<'PY'
import json,sys
id,t,wo,w,b,f=sys.argv[1:7]
known={"TestFileSS_BadPerm","TestRaft_FollowerRemovalNoElection","TestRaft_ProtocolVersion_Upgrade_1_2","TestRaft_ProtocolVersion_Upgrade_2_3"}
fl=[x for x in f.split('|')[0].split() if x]
unexpected=[x for x in f.split('|')[1].split() if x]
json.dump({"property":id,"demo_test":t,"builds":b=="0","demo_passes_without_change":wo=="0","demo_fails_with_change":w!="0",
 "suite_failures_with_change":fl,"suite_unexpected_failures":unexpected,
 "confirmed": b=="0" and wo=="0" and w!="0" and not unexpected,
 "ran":"git worktree of /repo HEAD; go test -run demo without/with patch; go test -count=1 . with patch (known baseline failures/flakes ignored: "+", ".join(sorted(known))+"; any other failure re-run alone up to 3 times with the change applied and counted only if it never passes)"},
 open('/verif/seeded/%s/confirm.json'%id,'w'),indent=1)
PY
cat /verif/seeded/$id/confirm.json
