#!/bin/bash
id=$1; shift
src=/tmp/seed3_out/$id; out=/verif/seeded/R3-$id; mkdir -p $out
cp $src/patch.diff $out/patch.diff; cp $src/demo_test.go $out/demo_test.go 2>/dev/null; cp $src/notes.md $out/notes.md 2>/dev/null
/verif/run_seed.sh R3-$id $out/patch.diff "$@"
